#!/venv/bin/python
"""Entry point of every registered check:  vp_check.py <Cxx> [--tier quick|thorough] [--replay file]

Honours VERIF_SEED (default 1), VERIF_TIER (when --tier is absent) and VERIF_JOBS.
Exit 0: property held on everything explored (KNOWN-FINDING lines may be printed);
exit 1: 'VIOLATION property=<id> replay=<path>' was printed; exit 2: the harness itself failed.
"""
import argparse
import os
import sys

HERE = os.path.dirname(os.path.abspath(__file__))


def main():
    ap = argparse.ArgumentParser()
    ap.add_argument("property")
    ap.add_argument("--tier", choices=["quick", "thorough"], default=None)
    ap.add_argument("--replay", default=None)
    ap.add_argument("--jobs", type=int, default=None)
    a = ap.parse_args()

    if os.environ.get("PYTHONHASHSEED") != "0":
        os.environ["PYTHONHASHSEED"] = "0"
        os.execv(sys.executable, [sys.executable] + sys.argv)
    for v in ("OMP_NUM_THREADS", "OPENBLAS_NUM_THREADS", "MKL_NUM_THREADS"):
        os.environ.setdefault(v, "1")
    os.chdir(HERE)
    sys.path.insert(0, HERE)
    import warnings
    warnings.filterwarnings("ignore")
    from verif import harness

    pid = a.property.upper()
    modname = f"verif.checks.{pid.lower()}"
    tier = a.tier or os.environ.get("VERIF_TIER") or "quick"
    if tier not in ("quick", "thorough"):
        tier = "quick"
    try:
        seed = int(os.environ.get("VERIF_SEED", "1"))
    except ValueError:
        seed = 1
    jobs = a.jobs or int(os.environ.get("VERIF_JOBS", "0")) or (8 if tier == "quick" else 16)
    jobs = max(1, min(jobs, os.cpu_count() or 1))
    try:
        harness.import_repo()
        if a.replay:
            return harness.replay(pid, modname, a.replay)
        return harness.run_property(pid, modname, tier, seed, jobs)
    except Exception:
        import traceback
        traceback.print_exc()
        print(f"HARNESS-ERROR property={pid}", file=sys.stderr)
        return 2


if __name__ == "__main__":
    sys.exit(main())

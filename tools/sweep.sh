#!/bin/bash
# usage: tools/sweep.sh <tier> <seed...>   - runs every check with each seed, prints one line per non-quiet run
tier=$1; shift
cd "$(dirname "$0")/.."
export VERIF_OUT=${VERIF_OUT:-/tmp/gemclus_sweep_$$}
/venv/bin/python -m verif.build --setup >/dev/null 2>&1
for seed in "$@"; do
  for i in $(seq -w 1 20); do
    out=$(VERIF_SEED=$seed /venv/bin/python vp_check.py C$i --tier $tier 2>&1); rc=$?
    echo "seed=$seed C$i rc=$rc $(echo "$out" | tail -1)"
    if [ $rc -ne 0 ]; then echo "$out" | grep -E "^(VIOL|  sub|HARN)" -A6 | head -30; fi
  done
done
rm -rf "$VERIF_OUT"

#!/venv/bin/python
"""Sensitivity driver: applies hand-made mutants of gemini-clustering/GemClus in a scratch copy (never in /repo),
runs the named checks against the copy (GEMCLUS_REPO) and reports whether each check fails.

  tools/mutants.py list
  tools/mutants.py run [--tier quick] [--tests] [--jobs N] [id ...]        (no id = all)
  tools/mutants.py table            -> rewrites SENSITIVITY.md from sensitivity/results.json

Mutants live in sensitivity/mutants.json:
  {"id":..., "props":[...], "file":..., "old":..., "new":..., "count":1, "expect":"fail"|"pass", "note":...}
expect=pass marks a negative control (a change that does NOT break the property: the check must stay green).
"""
import json
import os
import shutil
import subprocess
import sys
import time

HERE = os.path.dirname(os.path.dirname(os.path.abspath(__file__)))
SCRATCH = "/tmp/gemclus_mut"
REPO = "/repo"


def load():
    return json.load(open(os.path.join(HERE, "sensitivity", "mutants.json")))


def make_copy(dst):
    if os.path.exists(dst):
        shutil.rmtree(dst)
    os.makedirs(dst)
    subprocess.check_call(["rsync", "-a", "--exclude", ".git", "--exclude", "__pycache__", "--exclude", "doc",
                           "--exclude", "examples", "--exclude", ".pytest_cache", REPO + "/", dst + "/"])


def apply(m, root):
    edits = m.get("edits") or [m]
    for e in edits:
        path = os.path.join(root, e["file"])
        src = open(path).read()
        cnt = src.count(e["old"])
        want = e.get("count", 1)
        if cnt != want:
            raise RuntimeError(f"mutant {m['id']}: pattern occurs {cnt} times in {e['file']}, expected {want}")
        open(path, "w").write(src.replace(e["old"], e["new"]))


def run_one(m, tier, tests, jobs):
    root = os.path.join(SCRATCH, m["id"])
    out = os.path.join(SCRATCH, m["id"] + "_out")
    res = {"id": m["id"], "props": m["props"], "expect": m.get("expect", "fail"), "note": m.get("note", ""),
           "checks": {}}
    try:
        make_copy(root)
        apply(m, root)
        env = dict(os.environ, GEMCLUS_REPO=root, VERIF_OUT=out, PYTHONHASHSEED="0")
        if jobs:
            env["VERIF_JOBS"] = str(jobs)
        for pid in m["props"]:
            t0 = time.time()
            p = subprocess.run([os.path.join(HERE, "vp_check.py"), pid, "--tier", tier], env=env,
                               capture_output=True, text=True)
            lines = [l for l in p.stdout.splitlines() if l.startswith("VIOLATION") or l.startswith("  sub-check")]
            res["checks"][pid] = {"exit": p.returncode, "wall_s": round(time.time() - t0, 1),
                                  "first": " | ".join(lines[:2])[:400],
                                  "stderr_tail": p.stderr[-400:] if p.returncode == 2 else ""}
        if tests:
            t0 = time.time()
            p = subprocess.run(["/venv/bin/python", "-m", "pytest", "-q", "-p", "no:cacheprovider", "-x", "-n", "8",
                                "--timeout=900", "-q"], cwd=root, capture_output=True, text=True,
                               env=dict(os.environ, OMP_NUM_THREADS="1", OPENBLAS_NUM_THREADS="1"))
            res["tests"] = {"exit": p.returncode, "tail": p.stdout.strip().splitlines()[-1:] , "wall_s": round(time.time() - t0, 1)}
    finally:
        shutil.rmtree(root, ignore_errors=True)
        shutil.rmtree(out, ignore_errors=True)
    return res


def main():
    args = sys.argv[1:]
    if not args or args[0] == "list":
        for m in load():
            print(m["id"], m["props"], m.get("expect", "fail"), "-", m.get("note", ""))
        return
    if args[0] == "run":
        tier, tests, jobs, ids = "quick", False, 0, []
        it = iter(args[1:])
        for a in it:
            if a == "--tier":
                tier = next(it)
            elif a == "--tests":
                tests = True
            elif a == "--jobs":
                jobs = int(next(it))
            else:
                ids.append(a)
        ms = [m for m in load() if not ids or m["id"] in ids or any(p in ids for p in m["props"])]
        rpath = os.path.join(HERE, "sensitivity", "results.json")
        results = json.load(open(rpath)) if os.path.exists(rpath) else {}
        for m in ms:
            r = run_one(m, tier, tests, jobs)
            results[m["id"]] = r
            verdicts = {p: ("FAIL" if c["exit"] == 1 else "pass" if c["exit"] == 0 else "ERROR") for p, c in r["checks"].items()}
            print(m["id"], "expect", r["expect"], verdicts, r.get("tests", ""), flush=True)
            for p, c in r["checks"].items():
                if c["first"]:
                    print("    ", p, c["first"][:300])
                if c["exit"] == 2:
                    print("    ", p, "stderr:", c["stderr_tail"])
            json.dump(results, open(rpath, "w"), indent=1, sort_keys=True)
        return
    if args[0] == "table":
        results = json.load(open(os.path.join(HERE, "sensitivity", "results.json")))
        lines = ["# Sensitivity of the checks to hand-made mutants", "",
                 "Produced by `tools/mutants.py run` (scratch copies of /repo under /tmp, removed afterwards). `FAIL` = the check",
                 "printed a VIOLATION line (exit 1); negative controls (`expect pass`) are changes that do not break the property.", "",
                 "| mutant | change | expectation | result per check (quick tier) |", "|---|---|---|---|"]
        for m in load():
            r = results.get(m["id"])
            if not r:
                continue
            v = ", ".join(f"{p}: {'FAIL' if c['exit'] == 1 else 'pass' if c['exit'] == 0 else 'ERROR'} ({c['wall_s']} s)"
                          for p, c in r["checks"].items())
            lines.append(f"| {m['id']} | {m.get('note', '')} | {r['expect']} | {v} |")
        open(os.path.join(HERE, "SENSITIVITY.md"), "w").write("\n".join(lines) + "\n")
        print("\n".join(lines))


if __name__ == "__main__":
    main()

#!/venv/bin/python
"""Writes /verif/MANIFEST.json from the table below (one place to keep the 20 entries consistent)."""
import json
import os

HERE = os.path.dirname(os.path.dirname(os.path.abspath(__file__)))

# property id -> (technique, level text, level note, design ref)
CLAIMED = {
    "C05": ("property-based testing (Hypothesis) against an independent closed-form / 1-D-reduction reference "
            "minimiser plus generated feasible competitors",
            "Generated weight matrices (ties, zeros, group structures, boundary alphas, M in {0..100}) are sent through "
            "the four proximal operators; each result must equal the reference minimiser, be feasible, be exactly zero "
            "where the norm is below the threshold, and beat generated feasible competitors. Exploration, not proof: "
            "held on every generated case.",
            "reference minimiser derived by hand (verif/refs/prox_ref.py); float comparison at 1e-9 (values) / 1e-7 "
            "(HIER-PROX argmin) relative to the data scale; entries with |x|<1e-100 are not generated (squares underflow)",
            "DESIGN.md section 3, C05"),
    "C01": ("property-based testing (Hypothesis): library score vs literal definitions of the distances (transport LP "
            "solved with HiGHS for Wasserstein-1)",
            "Generated prediction matrices (near-uniform to near one-hot) and affinities (every named kernel/metric with "
            "drawn parameters, callables, precomputed PSD / indefinite / distance matrices) are scored by all 6 classes x "
            "ovo, the 13 registry names and gemini=None, through both call forms; each score must equal the literal "
            "OvA/OvO expectation of the named distance. Exploration: held on every generated case.",
            "reference definitions in verif/refs/gemini_ref.py; tolerance 1e-8*max(S,|ref|), 1e-6*S for MMD "
            "(cancellation under the square root); LP-based Wasserstein cases n<=8",
            "DESIGN.md section 3, C01"),
    "C02": ("property-based testing (Hypothesis): analytic directional derivative in logit space vs Richardson central "
            "differences of the score, with a differentiability (kink) filter",
            "For generated shapes, saturation levels and affinities the returned gradient is pushed through the softmax "
            "Jacobian and compared along coordinate and random simplex directions with numerical derivatives of the score; "
            "score with/without return_grad, gradient shape and exact zeros on clipped entries are asserted. Exploration.",
            "accepted error 10|D_h-D_h/2|+1e-7*max(S,|score|,|deriv|); kinks skipped and counted; MMD differentiated "
            "through a difference-first extended-precision evaluation of the same function and skipped where a squared "
            "distance is within 1000 roundings of zero",
            "DESIGN.md section 3, C02"),
    "C13": ("property-based metamorphic testing (Hypothesis): permutation, empty-cluster and bound relations",
            "Scores and gradients are compared between an input and its joint sample/cluster permutation and its "
            "extension by an empty cluster; floors, ceilings, log K for balanced hard partitions and finiteness are "
            "asserted on the closed simplex (one-hot rows, zero columns). Exploration.",
            "gradients compared modulo per-row constants; TV/Wasserstein gradients only at generic soft points; "
            "empty-cluster relation for predictions with entries >= 1e-4 (epsilon clipping artefact otherwise)",
            "DESIGN.md section 3, C13"),
    "C03": ("property-based testing (Hypothesis) of real fits with the optimiser's update_params wrapped: per-parameter "
            "directional derivatives of the batch objective by Richardson differences",
            "Real fits and paths of all gradient-trained families (tiny shapes, any GEMINI, solver, batch size, with and "
            "without must-link/cannot-link decoration) are observed from outside; at each observed step and for each "
            "parameter array the direction handed to the optimiser is compared with the numerical gradient of "
            "GEMINI(model(batch)) - penalty + constraint energy with only that parameter perturbed. Exploration.",
            "derivative rule of C02 incl. kink filter; batch and affinity block taken as delivered (C10 checks them); "
            "steps beyond the 4th sampled 1 in 4; MMD steps with a squared distance within 1000 roundings of 0 skipped",
            "DESIGN.md section 3, C03"),
    "C04": ("property-based testing (Hypothesis) over each estimator's accepted configuration domain with a coherence "
            "oracle on the public API",
            "For all 18 estimators, generated valid configurations (names/instances/None, solvers, batch sizes, OvA/OvO, "
            "named/callable/precomputed affinities, groups, masks, Kauri limits) and finite float64/float32/int data are "
            "fitted; fit must not raise and labels_, predict_proba, predict, fit_predict, score (against the literal "
            "definitions), n_iter_ and optimiser_ must be coherent. Exploration.",
            "score compared on predict_proba clipped at the documented epsilon; single-precision tolerance for float32 "
            "data (score evaluates the affinity in the precision of the data it is given)",
            "DESIGN.md section 3, C04"),
    "C10": ("property-based testing (Hypothesis) of real fits/paths with a recording wrapper on the instance's _batchify",
            "Every epoch of generated fits and paths is recorded: batches must be disjoint, cover every sample once, "
            "respect batch_size, carry exactly affinity[rows][:, rows] in row order; step counts, n_iter_, full-batch "
            "nonparametric models, recorded indices of decorated models and block-wise validation scores are checked. "
            "Exploration.",
            "rows identified by exact equality (unique by construction; degenerate kernels with identical rows skipped)",
            "DESIGN.md section 3, C10"),
    "C14": ("property-based testing (Hypothesis): differential against a union-find reference for validation, and "
            "observation under the decoration for the training-time gradient injection",
            "Generated pair sets over non-contiguous index universes must be accepted iff the union-find reference calls "
            "them consistent; malformed inputs must raise; during real decorated fits the gradient reaching the model "
            "must equal the GEMINI gradient plus exactly the +/-factor*(p_i-p_j) terms on rows of pairs sharing the "
            "batch, other rows bit-identical. Exploration.",
            "duplicated pairs count once per listing; indices in training are sample positions 0..n-1",
            "DESIGN.md section 3, C14"),
    "C08": ("property-based testing (Hypothesis): differential against a brute-force enumeration of all admissible splits "
            "with real objective increases, on every variant of the extension (imported .so, rebuilt .cpp, translated .pyx)",
            "Generated intermediate tree states (ties, indefinite kernels, cluster limits) and every find_best_split call "
            "of real fits are judged by a brute force: the returned gain must be the real increase of the returned split "
            "and the maximum over all admissible alternatives; fits must stop only when nothing positive is left or a "
            "limit binds, and root score + recorded gains must equal the final score. Known findings D12/D13 are "
            "recognised by exact emulation only, excluded and counted. Exploration.",
            "gains compared to 1e-9*max(1,n*max|K|), arg-max not compared; the .pyx is checked through a translated twin "
            "(no Cython in the sandbox); d<=n in generated states",
            "DESIGN.md sections 0.1, 0.2 and 3, C08"),
    "C09": ("property-based testing (Hypothesis) of fitted trees against structural invariants and a leaf-region reference",
            "Real fits over all limit combinations, kernels and seeds: leaf/depth/cluster limits, contiguous labels, "
            "min_samples_leaf / min_samples_split at every node (root included), observed thresholds, one target per leaf, "
            "2*leaves-1 nodes, candidate feature subsets, predict(train)==labels_, new points labelled by the "
            "hyper-rectangle that contains them, score == objective of predicted labels; every extension variant. "
            "Exploration.",
            "regions derived leaf by leaf from path constraints; query points include exact thresholds and next floats",
            "DESIGN.md section 3, C09"),
    "C19": ("property-based round-trip testing (Hypothesis): print -> recursive-descent parse -> evaluate == predict",
            "For generated fitted trees and feature-name lists the printed text is parsed back into nested threshold "
            "rules and evaluated on query points (thresholds included); it must agree with predict, label features by "
            "index, reject name lists that cannot name a used feature, and refuse unfitted / foreign objects. "
            "Exploration.",
            "names never contain ' <= ' / ' > ' / line breaks; any exception counts as a refusal",
            "DESIGN.md section 3, C19"),
    "C06": ("property-based testing (Hypothesis) of real fits/paths with weight snapshots around every proximal step and "
            "metamorphic input perturbation at every history point",
            "During generated fits and paths of the 5 sparse estimators the weights right after each optimiser step and "
            "after the model's shrinkage are compared with the reference proximal step at threshold alpha x current "
            "learning rate; at every history point get_selection must equal the non-zero rows, first-layer rows of "
            "unselected features must be zero, perturbing unselected columns (up to 1e6) must leave predict_proba "
            "bit-identical, declared groups must be whole and groups_ the declared list completed by singletons. "
            "Exploration.",
            "reference proximal operators of C05; history points: every 4th training step, every path step, end of fit/path",
            "DESIGN.md section 3, C06"),
    "C07": ("property-based testing (Hypothesis) of real paths with compute_val_score wrapped; replay of the documented "
            "best-weights rule on the recorded step snapshots; differential runs for out-of-range arguments",
            "Generated paths (all sparse estimators, alphas incl. 0, multipliers, min_features, keep_threshold, patience, "
            "batch sizes, computed/precomputed affinity, dynamic) must terminate within the bound implied by the "
            "geometric schedule, return four histories of equal length with exactly geometric alphas, counts/penalties/"
            "scores equal to the recorded end-of-step state, stop at min_features, return the best weights selected by "
            "the documented rule and restore them; out-of-range arguments must warn and behave exactly like the "
            "documented default passed explicitly. Exploration.",
            "termination is checked as bounded liveness (validation-score call budget); alpha=0 may only end in a "
            "ValueError or a terminating path; running-best reading of the best-weights rule",
            "DESIGN.md section 3, C07"),
    "C12": ("stateful / model-based property testing (Hypothesis RuleBasedStateMachine) over public call histories with "
            "clone-and-repeat probes",
            "One estimator per machine (all 18 + decorated variants) receives generated sequences of fit, fit_predict, "
            "predict, predict_proba, score, path, set_params and clone on three datasets; probe rules run fit/path twice "
            "in a row on the live object and once on a prior clone and compare every fitted attribute exactly; after "
            "every rule caller arrays, get_params and clone/set_params round-trips are checked. Exploration.",
            "integer random_state; decoration re-applied to clones; exact array equality",
            "DESIGN.md section 3, C12"),
    "C11": ("property-based differential / metamorphic testing (Hypothesis): equivalent ways of specifying the same "
            "affinity or objective must give bit-identical fitted models",
            "named kernel/metric with parameters == the harness's scikit-learn matrix passed as 'precomputed' == a callable "
            "returning it; convenience estimators == generic estimator with the explicit GEMINI instance; RIM(reg=0) and "
            "SparseLinearMI == generic 'mi'; None == 'mmd_ova'; name == instance; get_gemini() type / ovo / affinity; "
            "'precomputed' without a matrix raises (known finding D14 for Kauri); KernelRIM's kernel against the training "
            "points; Kauri named == precomputed; sparse paths named vs precomputed. Exploration.",
            "exact equality at fit level (same code, same matrix, same seed); path histories to 1e-9 (MMD scores 1e-6*S)",
            "DESIGN.md section 3, C11"),
    "C15": ("property-based testing (Hypothesis) of fitted Douglas models with drawn (unsorted) cut points: metamorphic "
            "mask perturbation, membership invariants, order-agnostic zero-temperature cell rule, definitional oracle for "
            "find_active_points",
            "Masked features must be inert bit for bit; leaf_scores_ must have (n_cuts+1)^used rows; bin and leaf "
            "memberships must be probability vectors at every temperature; at temperature -> 0 predictions must be "
            "constant inside each grid cell and equal the softmax of one leaf's scores, different cells using different "
            "leaves; find_active_points must return exactly the features with a cut point strictly inside the data range. "
            "Exploration.",
            "query points keep 1e-3 away from cut points for the cell rule; leaf numbering is not assumed",
            "DESIGN.md section 3, C15"),
    "C16": ("table-driven and exhaustive enumeration plus property-based testing (Hypothesis) of validation",
            "Every hyper-parameter of every estimator, GEMINI constructor and validated function is tried with documented "
            "values (must be accepted) and with meaningless values just outside each interval, wrong types, unknown "
            "options and inconsistent combinations (must raise ValueError/TypeError-family errors and leave no fitted "
            "model); all group lists over d<=3 (thorough: d<=4) features are enumerated exhaustively against the reference "
            "rule; malformed data and calls before fit must raise. Exploration with an exhaustive sub-domain.",
            "the table encodes the documentation; grey-zone values (bool for int, tuples for lists) are not listed",
            "DESIGN.md section 3, C16"),
    "C17": ("property-based testing (Hypothesis) over the stated families of degenerate inputs with the optimiser's "
            "update_params wrapped to inspect every gradient",
            "Scaled / offset data, constant and duplicated columns, duplicated samples, n == n_clusters, one cluster, "
            "batches of one sample, for all estimators x GEMINIs x solvers with default learning rates, through fit, "
            "path, predict_proba and score: everything learned or returned must be finite and no non-finite gradient may "
            "reach the optimiser. Exploration.",
            "only the families named in the property are generated (scale <= 1000, offsets <= 5000)",
            "DESIGN.md section 3, C17"),
    "C18": ("property-based metamorphic testing (Hypothesis): predictions of row subsets / permutations / single rows vs "
            "the whole array",
            "For fitted inductive estimators and Kauri, predict_proba(X[idx]) must equal predict_proba(X)[idx] (1e-10), "
            "labels wherever the arg-max is not a numerical tie, routing exactly; training data must reproduce labels_; "
            "KernelRIM must equal softmax(k(new, train) W + b) with the harness's kernel. Exploration.",
            "probabilities to 1e-10 (BLAS summation order), labels where the top-two margin exceeds 1e-8",
            "DESIGN.md section 3, C18"),
    "C20": ("property-based statistical testing (Hypothesis-generated parameter sets, Kolmogorov-Smirnov and z-tests at a "
            "1e-9 level against the documented laws, least squares for the dependent block)",
            "Shapes, label ranges and seed reproducibility; per label the whitened samples of draw_gmm must be standard "
            "normal (means, variances, correlations, KS) with binomially consistent proportions; Student-t marginals and "
            "radial law; documented constants of gstm, celeux_one, celeux_two incl. the regression block; invalid mixtures "
            "must raise. Exploration with a probabilistic oracle.",
            "per-comparison false-alarm level 1e-9 (deterministic for a fixed seed); detects errors larger than a few "
            "standard errors at n up to 1.2e5",
            "DESIGN.md section 3, C20"),
}

NOT_YET = {}

ALL = [f"C{i:02d}" for i in range(1, 21)]


def main():
    checks = []
    for pid in ALL:
        if pid not in CLAIMED:
            continue
        tech, text, note, ref = CLAIMED[pid]
        checks.append({
            "property_id": pid,
            "quick_cmd": f"/venv/bin/python vp_check.py {pid} --tier quick",
            "thorough_cmd": f"/venv/bin/python vp_check.py {pid} --tier thorough",
            "evidence_file": f"/verif/evidence/{pid}.json",
            "replay_cmd_template": f"/venv/bin/python vp_check.py {pid} --replay {{path}}",
            "engine": "hypothesis",
            "level_claimed": {"category": "exploration", "text": text, "design_ref": ref},
            "level_note": note,
            "technique": tech,
        })
    na = [{"property_id": pid, "reason": NOT_YET.get(pid, "check not built yet in this session (planned, see DESIGN.md section 3); "
                                                      "the technique applies")}
          for pid in ALL if pid not in CLAIMED]
    manifest = {
        "version": 1,
        "setup_cmd": "/venv/bin/python -m verif.build --setup",
        "hooks": {
            "guard": "GEMCLUS_VERIF",
            "enable": "no source hook exists: the checks observe gemclus from outside (wrapping documented extension "
                      "points and module attributes at run time); nothing in /repo reads GEMCLUS_VERIF",
            "baseline_off_cmd": "cd /repo && /venv/bin/python -m pytest -ra -q -p no:cacheprovider --timeout=900 "
                                "--continue-on-collection-errors",
            "source_commits": [],
            "add_only": True,
        },
        "engines": [{"name": "hypothesis", "path": "/verif/verif/harness.py",
                     "serves_properties": [c["property_id"] for c in checks],
                     "kind_free_text": "Hypothesis 6.168 property-based testing (generated inputs / call histories, "
                                       "explicit oracle, shrinking to a JSON replay file), sharded over processes"}],
        "checks": checks,
        "not_applicable": na,
        "notes": "All checks: cwd=/verif, honour VERIF_SEED / VERIF_TIER / VERIF_JOBS, import gemclus from /repo's "
                 "working tree, write evidence/<id>.json and replays/<id>-*.json. Exit 0 held / 1 VIOLATION / 2 harness error.",
    }
    with open(os.path.join(HERE, "MANIFEST.json"), "w") as f:
        json.dump(manifest, f, indent=1)
    print("claimed", [c["property_id"] for c in checks], "not applicable", [x["property_id"] for x in na])


if __name__ == "__main__":
    main()

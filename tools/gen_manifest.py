#!/venv/bin/python
"""Writes /verif/MANIFEST.json from the table below (one place to keep the 20 entries consistent)."""
import json
import os

HERE = os.path.dirname(os.path.dirname(os.path.abspath(__file__)))

# property id -> (technique, level text, level note, design ref)
CLAIMED = {
    "C05": ("property-based testing (Hypothesis) against an independent closed-form / 1-D-reduction reference "
            "minimiser plus generated feasible competitors",
            "Generated weight matrices (ties, zeros, group structures, boundary alphas, M in {0..100}) are sent through "
            "the four proximal operators; each result must equal the reference minimiser, be feasible, be exactly zero "
            "where the norm is below the threshold, and beat generated feasible competitors. Exploration, not proof: "
            "held on every generated case.",
            "reference minimiser derived by hand (verif/refs/prox_ref.py); float comparison at 1e-9 (values) / 1e-7 "
            "(HIER-PROX argmin) relative to the data scale; entries with |x|<1e-100 are not generated (squares underflow)",
            "DESIGN.md section 3, C05"),
    "C01": ("property-based testing (Hypothesis): library score vs literal definitions of the distances (transport LP "
            "solved with HiGHS for Wasserstein-1)",
            "Generated prediction matrices (near-uniform to near one-hot) and affinities (every named kernel/metric with "
            "drawn parameters, callables, precomputed PSD / indefinite / distance matrices) are scored by all 6 classes x "
            "ovo, the 13 registry names and gemini=None, through both call forms; each score must equal the literal "
            "OvA/OvO expectation of the named distance. Exploration: held on every generated case.",
            "reference definitions in verif/refs/gemini_ref.py; tolerance 1e-8*max(S,|ref|), 1e-6*S for MMD "
            "(cancellation under the square root); LP-based Wasserstein cases n<=8",
            "DESIGN.md section 3, C01"),
    "C02": ("property-based testing (Hypothesis): analytic directional derivative in logit space vs Richardson central "
            "differences of the score, with a differentiability (kink) filter",
            "For generated shapes, saturation levels and affinities the returned gradient is pushed through the softmax "
            "Jacobian and compared along coordinate and random simplex directions with numerical derivatives of the score; "
            "score with/without return_grad, gradient shape and exact zeros on clipped entries are asserted. Exploration.",
            "accepted error 10|D_h-D_h/2|+1e-7*max(S,|score|,|deriv|); kinks skipped and counted; MMD differentiated "
            "through a difference-first extended-precision evaluation of the same function and skipped where a squared "
            "distance is within 1000 roundings of zero",
            "DESIGN.md section 3, C02"),
    "C13": ("property-based metamorphic testing (Hypothesis): permutation, empty-cluster and bound relations",
            "Scores and gradients are compared between an input and its joint sample/cluster permutation and its "
            "extension by an empty cluster; floors, ceilings, log K for balanced hard partitions and finiteness are "
            "asserted on the closed simplex (one-hot rows, zero columns). Exploration.",
            "gradients compared modulo per-row constants; TV/Wasserstein gradients only at generic soft points; "
            "empty-cluster relation for predictions with entries >= 1e-4 (epsilon clipping artefact otherwise)",
            "DESIGN.md section 3, C13"),
}

NOT_YET = {}

ALL = [f"C{i:02d}" for i in range(1, 21)]


def main():
    checks = []
    for pid in ALL:
        if pid not in CLAIMED:
            continue
        tech, text, note, ref = CLAIMED[pid]
        checks.append({
            "property_id": pid,
            "quick_cmd": f"/venv/bin/python vp_check.py {pid} --tier quick",
            "thorough_cmd": f"/venv/bin/python vp_check.py {pid} --tier thorough",
            "evidence_file": f"/verif/evidence/{pid}.json",
            "replay_cmd_template": f"/venv/bin/python vp_check.py {pid} --replay {{path}}",
            "engine": "hypothesis",
            "level_claimed": {"category": "exploration", "text": text, "design_ref": ref},
            "level_note": note,
            "technique": tech,
        })
    na = [{"property_id": pid, "reason": NOT_YET.get(pid, "check not built yet in this session (planned, see DESIGN.md section 3); "
                                                      "the technique applies")}
          for pid in ALL if pid not in CLAIMED]
    manifest = {
        "version": 1,
        "setup_cmd": "/venv/bin/python -m verif.build --setup",
        "hooks": {
            "guard": "GEMCLUS_VERIF",
            "enable": "no source hook exists: the checks observe gemclus from outside (wrapping documented extension "
                      "points and module attributes at run time); nothing in /repo reads GEMCLUS_VERIF",
            "baseline_off_cmd": "cd /repo && /venv/bin/python -m pytest -ra -q -p no:cacheprovider --timeout=900 "
                                "--continue-on-collection-errors",
            "source_commits": [],
            "add_only": True,
        },
        "engines": [{"name": "hypothesis", "path": "/verif/verif/harness.py",
                     "serves_properties": [c["property_id"] for c in checks],
                     "kind_free_text": "Hypothesis 6.168 property-based testing (generated inputs / call histories, "
                                       "explicit oracle, shrinking to a JSON replay file), sharded over processes"}],
        "checks": checks,
        "not_applicable": na,
        "notes": "All checks: cwd=/verif, honour VERIF_SEED / VERIF_TIER / VERIF_JOBS, import gemclus from /repo's "
                 "working tree, write evidence/<id>.json and replays/<id>-*.json. Exit 0 held / 1 VIOLATION / 2 harness error.",
    }
    with open(os.path.join(HERE, "MANIFEST.json"), "w") as f:
        json.dump(manifest, f, indent=1)
    print("claimed", [c["property_id"] for c in checks], "not applicable", [x["property_id"] for x in na])


if __name__ == "__main__":
    main()

#!/bin/bash
# usage: tools/sweep_some.sh <tier> <seed> <Cxx...>   - like sweep.sh for a subset of the checks
tier=$1; seed=$2; shift 2
cd "$(dirname "$0")/.."
export VERIF_OUT=${VERIF_OUT:-/tmp/gemclus_sweep_$$}
/venv/bin/python -m verif.build --setup >/dev/null 2>&1
for c in "$@"; do
  out=$(VERIF_SEED=$seed /venv/bin/python vp_check.py $c --tier $tier 2>&1); rc=$?
  echo "seed=$seed $c rc=$rc $(echo "$out" | tail -1)"
  if [ $rc -ne 0 ]; then echo "$out" | grep -E "^(VIOL|  sub|HARN)" -A6 | head -30; fi
done
rm -rf "$VERIF_OUT"

#!/venv/bin/python
"""Confirms a seeded change and runs the checks against it, in a scratch copy of /repo (never in /repo itself).

  tools/seeded.py import <id> <dir with patch.diff demo.py meta.json [cpp_patch.diff]>   -> copies into seeded/<id>/
  tools/seeded.py verify <id> [--checks C03,C14] [--tier quick] [--tests]

verify: scratch copy of the current /repo -> demo must exit 0; apply patch.diff (and rebuild the extension from
cpp_patch.diff if present) -> demo must exit non-zero; optionally the repository's own tests; then every listed check
is run with GEMCLUS_REPO=<copy>. Results are appended to seeded/<id>/meta.json under "verification".
"""
import json
import os
import shutil
import subprocess
import sys
import time

HERE = os.path.dirname(os.path.dirname(os.path.abspath(__file__)))
SCRATCH = "/tmp/gemclus_seeded"


def sh(cmd, **kw):
    return subprocess.run(cmd, capture_output=True, text=True, **kw)


def make_copy(dst):
    shutil.rmtree(dst, ignore_errors=True)
    os.makedirs(dst)
    subprocess.check_call(["rsync", "-a", "--exclude", ".git", "--exclude", "__pycache__", "--exclude", "doc",
                           "--exclude", "examples", "/repo/", dst + "/"])


def rebuild_so(root):
    import sysconfig
    import numpy
    tree = os.path.join(root, "gemclus", "tree")
    so = [f for f in os.listdir(tree) if f.startswith("_utils.") and f.endswith(".so")][0]
    p = sh(["g++", "-O1", "-shared", "-fPIC", "-w", "-I" + sysconfig.get_paths()["include"], "-I" + numpy.get_include(),
            "_utils.cpp", "-o", so], cwd=tree)
    return p.returncode == 0


def main():
    a = sys.argv[1:]
    if a[0] == "import":
        sid, src = a[1], a[2]
        dst = os.path.join(HERE, "seeded", sid)
        os.makedirs(dst, exist_ok=True)
        for f in ("patch.diff", "demo.py", "meta.json", "cpp_patch.diff"):
            if os.path.exists(os.path.join(src, f)):
                shutil.copy(os.path.join(src, f), os.path.join(dst, f))
        print("imported", os.listdir(dst))
        return
    if a[0] == "verify":
        sid = a[1]
        checks, tier, tests = None, "quick", False
        it = iter(a[2:])
        for x in it:
            if x == "--checks":
                checks = next(it).split(",")
            elif x == "--tier":
                tier = next(it)
            elif x == "--tests":
                tests = True
        d = os.path.join(HERE, "seeded", sid)
        meta = json.load(open(os.path.join(d, "meta.json")))
        checks = checks or meta.get("checks") or [meta["property"]]
        root = os.path.join(SCRATCH, sid)
        out = os.path.join(SCRATCH, sid + "_out")
        ver = {"at_repo_commit": sh(["git", "-C", "/repo", "log", "--format=%h", "-1"]).stdout.strip(), "checks": {}}
        try:
            make_copy(root)
            env = dict(os.environ, PYTHONPATH=root, OMP_NUM_THREADS="1", OPENBLAS_NUM_THREADS="1")
            p0 = sh(["timeout", "900", "/venv/bin/python", os.path.join(d, "demo.py")], env=env, cwd=root)
            ver["demo_on_original_exit"] = p0.returncode
            pa = sh(["patch", "-p1", "-i", os.path.join(d, "patch.diff")], cwd=root)
            ver["patch_applied"] = pa.returncode == 0
            if pa.returncode != 0:
                ver["patch_error"] = (pa.stdout + pa.stderr)[-500:]
            if os.path.exists(os.path.join(d, "cpp_patch.diff")):
                pc = sh(["patch", os.path.join(root, "gemclus", "tree", "_utils.cpp"), "-i", os.path.join(d, "cpp_patch.diff")], cwd=root)
                ver["cpp_patch_applied"] = pc.returncode == 0
                if pc.returncode != 0:
                    ver["cpp_patch_error"] = (pc.stdout + pc.stderr)[-500:]
                ver["so_rebuilt"] = rebuild_so(root)
            p1 = sh(["timeout", "900", "/venv/bin/python", os.path.join(d, "demo.py")], env=env, cwd=root)
            ver["demo_on_changed_exit"] = p1.returncode
            ver["demo_on_changed_tail"] = (p1.stdout + p1.stderr)[-300:]
            if tests:
                t0 = time.time()
                pt = sh(["/venv/bin/python", "-m", "pytest", "-q", "-p", "no:cacheprovider", "-n", "8", "--timeout=900",
                         "--junitxml", os.path.join(SCRATCH, sid + ".xml")], cwd=root, env=env)
                import xml.etree.ElementTree as ET
                res = {}
                for tc in ET.parse(os.path.join(SCRATCH, sid + ".xml")).iter("testcase"):
                    res[tc.get("classname") + "::" + tc.get("name")] = not any(c.tag in ("failure", "error") for c in tc)
                base = json.load(open("/root/.vp/BASELINE.json"))["stable_pass"]
                ver["baseline_tests_not_passing"] = [n for n in base if not res.get(n)]
                ver["tests_wall_s"] = round(time.time() - t0)
            cenv = dict(os.environ, GEMCLUS_REPO=root, VERIF_OUT=out, PYTHONHASHSEED="0")
            for pid in checks:
                t0 = time.time()
                p = sh([os.path.join(HERE, "vp_check.py"), pid, "--tier", tier], env=cenv)
                lines = [l for l in p.stdout.splitlines() if l.startswith("VIOLATION") or l.startswith("  sub-check")]
                ver["checks"][pid] = {"tier": tier, "exit": p.returncode, "wall_s": round(time.time() - t0, 1),
                                      "first": " | ".join(lines[:2])[:500]}
                # keep the (shrunk) failing case as a regression case of that property
                for l in p.stdout.splitlines():
                    if l.startswith("VIOLATION") and "replay=" in l:
                        rp = l.split("replay=", 1)[1].strip()
                        if os.path.exists(rp) and "/corpus/" not in rp:
                            cdir = os.path.join(HERE, "corpus", pid)
                            os.makedirs(cdir, exist_ok=True)
                            shutil.copy(rp, os.path.join(cdir, f"{sid}.json"))
                        break
        finally:
            shutil.rmtree(root, ignore_errors=True)
            shutil.rmtree(out, ignore_errors=True)
        meta.setdefault("verification", []).append(ver)
        json.dump(meta, open(os.path.join(d, "meta.json"), "w"), indent=1)
        print(json.dumps(ver, indent=1))


if __name__ == "__main__":
    main()

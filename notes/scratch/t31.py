import sys; sys.path.insert(0,'/tmp/gc/repo')
import warnings; warnings.simplefilter('ignore')
import numpy as np, copy
from sklearn.base import clone
from gemclus.linear import *; from gemclus.mlp import *; from gemclus.sparse import *; from gemclus.nonparametric import *; from gemclus.tree import *
rs=np.random.RandomState(0)
def state(m):
    if isinstance(m,Kauri): return [m.labels_, np.array(m.tree_.features[:1]==[None]), np.array([t if t is not None else np.nan for t in m.tree_.thresholds])]
    return [w.copy() for w in m._get_weights()]+[m.labels_.copy()]
mk=[lambda s:LinearModel(gemini='tv_ovo',max_iter=3,random_state=s,batch_size=4),lambda s:RIM(max_iter=3,random_state=s),lambda s:KernelRIM(max_iter=3,random_state=s,base_kernel='rbf'),lambda s:MLPWasserstein(max_iter=3,random_state=s,n_hidden_dim=3,batch_size=5),
    lambda s:SparseMLPModel(max_iter=3,random_state=s,n_hidden_dim=3,alpha=0.5,learning_rate=0.1),lambda s:SparseLinearMMD(max_iter=3,random_state=s,alpha=0.5,learning_rate=0.1,kernel='rbf'),lambda s:CategoricalWasserstein(max_iter=3,random_state=s),lambda s:Douglas(max_iter=3,random_state=s,n_cuts=2,batch_size=6),lambda s:Kauri(max_features=2,random_state=s,max_clusters=4)]
bad=0; tot=0
for trial in range(150):
    m=mk[trial%len(mk)](trial)
    D=[rs.randn(rs.randint(6,14),3) for _ in range(3)]
    Dc=[d.copy() for d in D]
    params0=copy.deepcopy({k:v for k,v in m.get_params().items() if not callable(v)})
    fitted=None
    for step in range(rs.randint(0,6)):
        op=rs.choice(['fit','predict','score','proba','path','fit_predict'])
        d=D[rs.randint(3)]
        try:
            if op=='fit': m.fit(d); fitted=d
            elif op=='fit_predict': m.fit_predict(d); fitted=d
            elif op=='path' and hasattr(m,'path'): m.path(d,alpha_multiplier=2.0,max_patience=2); fitted=d
            elif fitted is not None and not isinstance(m,(CategoricalWasserstein,)):
                q = d if not isinstance(m,CategoricalWasserstein) else fitted
                if op=='predict': m.predict(q)
                elif op=='score': m.score(q)
                elif op=='proba' and hasattr(m,'predict_proba'): m.predict_proba(q)
        except Exception as e:
            print('EXC',type(m).__name__,op,type(e).__name__,e); bad+=1
    fresh=clone(m)
    a=state(m.fit(D[0])); b=state(fresh.fit(D[0]))
    tot+=1
    if not all(np.array_equal(x,y,equal_nan=True) for x,y in zip(a,b)): bad+=1; print('HISTORY DEPENDENCE',type(m).__name__)
    if not all(np.array_equal(x,y) for x,y in zip(D,Dc)): bad+=1; print('DATA MODIFIED',type(m).__name__)
    p1={k:v for k,v in m.get_params().items() if not callable(v)}
    if str(p1)!=str(params0): print('PARAMS CHANGED',type(m).__name__,{k:(params0[k],p1[k]) for k in p1 if str(p1[k])!=str(params0[k])})
print(tot,bad)

import sys; sys.path.insert(0,'/tmp/gc/repo')
import warnings; warnings.simplefilter('ignore')
import numpy as np
from gemclus.linear import *; from gemclus.mlp import *; from gemclus.nonparametric import *
from gemclus import add_mlcl_constraint
rs=np.random.RandomState(0)
viol={}; act=0
def V(k,info=None):
    viol[k]=viol.get(k,0)+1
    if viol[k]<3: print(k,info)
for trial in range(200):
    n=rs.randint(4,14); X=rs.randn(n,3)
    bs=rs.choice([None,3,5,n]); 
    m=[LinearModel,MLPModel][trial%2](gemini=rs.choice(['mmd_ova','kl_ovo','tv_ova']),n_clusters=3,max_iter=2,batch_size=bs,random_state=trial)
    ids=list(range(n))
    pairs=lambda k:[tuple(rs.choice(n,2,replace=False).tolist()) for _ in range(k)]
    ML=pairs(rs.randint(0,3)); CL=[p for p in pairs(rs.randint(0,3))]
    factor=float(rs.choice([0.5,1,3]))
    cur={}
    ob=m._batchify
    def bat(Xf,aff=None,random_state=None):
        for xb,ab in ob(Xf,aff,random_state):
            cur['idx']=np.array(xb); cur['aff']=ab; yield xb,ab
    m._batchify=bat
    oc=m._compute_grads
    gem=m.get_gemini()
    def cg(Xb,yp,gradient):
        idx=cur['idx'].tolist()
        _,raw=gem(yp,cur['aff'],return_grad=True)
        exp=raw.copy()
        global act
        for (i,j) in CL:
            if i in idx and j in idx:
                a,b=idx.index(i),idx.index(j); exp[a]+=factor*(yp[a]-yp[b]); exp[b]+=factor*(yp[b]-yp[a]); act+=1
        for (i,j) in ML:
            if i in idx and j in idx:
                a,b=idx.index(i),idx.index(j); exp[a]-=factor*(yp[a]-yp[b]); exp[b]-=factor*(yp[b]-yp[a]); act+=1
        if np.abs(exp-gradient).max()>1e-12: V('grad mismatch',(ML,CL,idx))
        return oc(Xb,yp,gradient)
    m._compute_grads=cg
    try:
        add_mlcl_constraint(m,ML or None,CL or None,factor)
    except ValueError as e:
        continue
    m.fit(X)
print(viol,act)

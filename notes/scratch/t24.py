import sys; sys.path.insert(0,'/tmp/gc/repo')
import warnings; warnings.simplefilter('ignore')
import numpy as np
from gemclus.tree import Kauri
from sklearn.metrics import pairwise_kernels
rs=np.random.RandomState(0)
def J(labels,K):
    s=0
    for v in np.unique(labels):
        idx=np.where(labels==v)[0]; s+=K[np.ix_(idx,idx)].sum()/len(idx)
    return s
viol={}
def V(k,info=None):
    viol[k]=viol.get(k,0)+1
    if viol[k]<3: print(k,info)
for trial in range(3000):
    n=rs.randint(1,30); d=rs.randint(1,4)
    X=rs.randint(-3,4,size=(n,d)).astype(float)
    if rs.rand()<0.2: X[:,0]=1.0
    msl=rs.randint(1,4); mss=rs.randint(2*msl,2*msl+6)
    kw=dict(max_clusters=rs.randint(1,6),max_depth=rs.choice([None,1,2,3]),min_samples_split=mss,min_samples_leaf=msl,max_features=rs.choice([None,1,2]),max_leaves=rs.choice([None,2,3,5]),kernel=rs.choice(['linear','rbf','sigmoid','laplacian']),random_state=int(rs.randint(100)))
    if n<msl: continue
    try:
        m=Kauri(**kw).fit(X)
    except Exception as e:
        V('EXC '+type(e).__name__+str(e)[:50],kw); continue
    t=m.tree_
    leaves=[i for i in range(t.n_nodes) if t.children_left[i]==-1]
    nl=len(leaves)
    if kw['max_leaves'] and nl>kw['max_leaves']: V('max_leaves',kw)
    if kw['max_depth'] and max(t.depths)>kw['max_depth']: V('max_depth',(kw,t.depths))
    if len(np.unique(m.labels_))>kw['max_clusters']: V('max_clusters')
    if sorted(np.unique(m.labels_))!=list(range(len(np.unique(m.labels_)))): V('noncontig',np.unique(m.labels_))
    if t.n_nodes!=2*nl-1: V('nodes')
    # node sample counts by routing
    def route(node,idx,acc):
        acc[node]=idx
        if t.children_left[node]!=-1:
            f,th=t.features[node],t.thresholds[node]
            L=idx[X[idx,f]<=th]; R=idx[X[idx,f]>th]
            if th not in X[idx,f]: V('threshold not observed')
            route(t.children_left[node],L,acc); route(t.children_right[node],R,acc)
    acc={}; route(0,np.arange(n),acc)
    for node,idx in acc.items():
        if t.children_left[node]==-1:
            if len(idx)<msl: V('min_samples_leaf',(kw,len(idx)))
        else:
            if len(idx)<mss: V('min_samples_split'+(' root' if node==0 else ''),(n,mss))
    if not np.array_equal(m.predict(X),m.labels_): V('predict!=labels')
    Kmat=pairwise_kernels(X,metric=kw['kernel'])
    if abs(m.score(X)-J(m.labels_,Kmat))>1e-8*max(1,abs(m.score(X))): V('score')
    tot=J(np.zeros(n,int),Kmat)+sum(t.gains)
    if abs(tot-m.score(X))>1e-7*max(1,abs(tot)): V('telescoping', (tot,m.score(X)))
print(viol)

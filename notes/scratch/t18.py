import sys; sys.path.insert(0,'/tmp/gc/repo')
import warnings; warnings.simplefilter('ignore')
import numpy as np
from scipy.special import softmax
from gemclus.gemini import *
from gemclus.gemini._utils import _str_to_gemini
rs=np.random.RandomState(0)
stats={}
def run(name,g,L,A):
    st=stats.setdefault(name,dict(acc=0,kink=0,bad=0,maxrel=0,clipped=0))
    N,K=L.shape
    P=softmax(L,axis=1)
    val,gr=g(P,A,return_grad=True)
    lg=P*(gr-(P*gr).sum(1,keepdims=True))
    scale=max(1e-12,abs(val))
    if P.min()<=1e-12 or P.max()>=1-1e-12: st['clipped']+=1
    for _ in range(4):
        U=rs.randn(N,K); U/=np.abs(U).max()
        h=1e-4
        F=lambda t: g(softmax(L+t*U,axis=1),A)
        fp,fm,fp2,fm2=F(h),F(-h),F(h/2),F(-h/2)
        Dh=(fp-fm)/(2*h); Dh2=(fp2-fm2)/h
        rich=(4*Dh2-Dh)/3
        fwd=(fp2-val)/(h/2); bwd=(val-fm2)/(h/2)
        an=(lg*U).sum()
        curv=abs(fp2-2*val+fm2)/(h/2)   # ~ h/2*|f''| : smooth part of fwd-bwd
        # if smooth, fwd-bwd ≈ (h/2) f'' and halves when h halves; detect kink: compare fwd-bwd at h and h/2
        d1=abs((fp-val)/h-(val-fm)/h); d2=abs(fwd-bwd)
        kink = d2>1e-9*max(scale,abs(Dh2)) and d2>0.75*d1   # does not shrink ~ linearly with h
        if kink: st['kink']+=1; continue
        st['acc']+=1
        tol=10*abs(Dh-Dh2)+1e-7*max(scale,abs(an))
        err=abs(an-rich)
        st['maxrel']=max(st['maxrel'],err/max(abs(an),scale*1e-3))
        if err>tol:
            st['bad']+=1
            if st['bad']<3: print(name,N,K,'an',an,'rich',rich,'Dh',Dh,Dh2,'tol',tol,'d1,d2',d1,d2,'minP',P.min())
for trial in range(400):
    N=rs.randint(1,12); K=rs.randint(2,6); d=rs.randint(1,4)
    L=rs.randn(N,K)*rs.choice([0.1,1,4,10])
    X=rs.randn(N,d)
    for name in AVAILABLE_GEMINIS:
        g=_str_to_gemini(name); run(name,g,L,g.compute_affinity(X))
for k,v in stats.items(): print(k,v)

import sys; sys.path.insert(0,'/tmp/gc/repo')
import warnings; warnings.simplefilter('ignore')
import numpy as np
from scipy.optimize import linprog
from scipy.special import softmax
from gemclus.gemini import *
from gemclus.gemini._utils import _str_to_gemini
rs=np.random.RandomState(0)
def cond(P):
    N=len(P); pi=P.mean(0); return P/(N*pi), pi   # columns p(x|k)
def kl(p,q): return np.sum(p*np.log(p/q))
def tv(p,q): return 0.5*np.abs(p-q).sum()
def hel(p,q): return 1-np.sum(np.sqrt(p*q))
def chi2(p,q): return np.sum((p-q)**2/q)
def mmd(Kk):
    return lambda p,q: np.sqrt(max((p-q)@Kk@(p-q),0))
def w1(D):
    def f(p,q):
        n=len(p)
        # LP
        c=D.reshape(-1)
        Aeq=[];beq=[]
        for i in range(n):
            r=np.zeros((n,n)); r[i,:]=1; Aeq.append(r.reshape(-1)); beq.append(p[i])
        for j in range(n):
            r=np.zeros((n,n)); r[:,j]=1; Aeq.append(r.reshape(-1)); beq.append(q[j])
        res=linprog(c,A_eq=np.array(Aeq),b_eq=np.array(beq),bounds=(0,None),method='highs')
        return res.fun
    return f
def ref(P,dist,ovo):
    C,pi=cond(P); N,K=P.shape; px=np.ones(N)/N
    if not ovo: return sum(pi[k]*dist(C[:,k],px) for k in range(K))
    return sum(pi[a]*pi[b]*dist(C[:,a],C[:,b]) for a in range(K) for b in range(K) if a!=b or True)
for trial in range(30):
    N=rs.randint(2,9); K=rs.randint(2,5); d=rs.randint(1,4)
    P=softmax(rs.randn(N,K)*rs.choice([0.3,1,3]),axis=1)
    X=rs.randn(N,d)
    for name in AVAILABLE_GEMINIS:
        g=_str_to_gemini(name); A=g.compute_affinity(X)
        val=g(P,A)
        base,mode=name.rsplit('_',1) if name!='mi' else ('kl','ova')
        ovo= mode=='ovo'
        dist={'kl':kl,'tv':tv,'hellinger':hel,'chi2':chi2}.get(base)
        if base=='mmd': dist=mmd(X@X.T)
        if base=='wasserstein':
            from sklearn.metrics import pairwise_distances
            dist=w1(pairwise_distances(X))
        r=ref(P,dist,ovo)
        if base=='chi2': r=(r+1)/2
        if abs(r-val)>1e-7*max(1,abs(r)): print('MISMATCH',name,N,K,val,r)
print('done C01 quick')

import sys; sys.path.insert(0,'/tmp/gc/repo')
import warnings; warnings.simplefilter('ignore')
import numpy as np
from gemclus.linear import *; from gemclus.mlp import *; from gemclus.sparse import *; from gemclus.nonparametric import *; from gemclus.tree import *
import sklearn.neural_network._stochastic_optimizers as so
rs=np.random.RandomState(0)
def numgrad(model, weights, Xb, Ab, gem, extra=lambda m:0.0):
    out=[]
    for w in weights:
        g=np.zeros_like(w)
        it=np.nditer(w,flags=['multi_index'])
        for _ in it:
            idx=it.multi_index; old=w[idx]; h=1e-6
            w[idx]=old+h; fp=gem(model._infer(Xb,retain=False),Ab)-extra(model)
            w[idx]=old-h; fm=gem(model._infer(Xb,retain=False),Ab)-extra(model)
            w[idx]=old; g[idx]=(fp-fm)/(2*h)
        out.append(g)
    return out
def check(model, X, y=None, extra=lambda m:0.0, name=None):
    rec=[]
    orig_b=model._batchify
    def bat(Xf,aff=None,random_state=None):
        for xb,ab in orig_b(Xf,aff,random_state):
            rec.append([xb,ab]); yield xb,ab
    model._batchify=bat
    orig=so.BaseOptimizer.update_params
    errs=[]
    def upd(self, params, grads):
        xb,ab=rec[-1]
        gem=model.get_gemini()
        ng=numgrad(model, params, xb, ab, gem, extra)
        for p,(a,b) in enumerate(zip(grads,ng)):
            errs.append((p, np.abs(a+b).max(), np.abs(b).max()))
        return orig(self,params,grads)
    so.BaseOptimizer.update_params=upd
    try:
        model.fit(X,y)
    finally:
        so.BaseOptimizer.update_params=orig
    res={}
    for p,e,m in errs:
        r=res.setdefault(p,[0,0]); r[0]=max(r[0],e); r[1]=max(r[1],m)
    print(name or type(model).__name__, {p:(f'{e:.2e}',f'{m:.2e}') for p,(e,m) in res.items()})
X=rs.randn(12,3)
kw=dict(max_iter=3,random_state=0,batch_size=6)
check(LinearModel(gemini='mmd_ova',**kw),X)
check(LinearModel(gemini='kl_ovo',**kw),X)
check(RIM(reg=0.3,**kw),X, extra=lambda m:0.3*np.sum(m.W_**2))
check(KernelRIM(reg=0.3,max_iter=3,random_state=0),X, extra=lambda m:0.3*np.trace(m.W_.T@(X@X.T)@m.W_))
check(MLPModel(gemini='mmd_ova',n_hidden_dim=4,**kw),X)
check(SparseMLPModel(gemini='mmd_ova',n_hidden_dim=4,alpha=0,**kw),X)
check(SparseLinearModel(gemini='mmd_ova',alpha=0,**kw),X)
check(CategoricalModel(gemini='mmd_ova',max_iter=3,random_state=0),X)
check(Douglas(gemini='mmd_ova',n_cuts=2,**kw),X)
check(Douglas(gemini='kl_ova',n_cuts=1,**kw),X)
try:
    check(KernelRIM(reg=0.3,**kw),X, extra=lambda m:0.3*np.trace(m.W_.T@(X@X.T)@m.W_), name='KernelRIM batch')
except Exception as e: print('KernelRIM batch', type(e).__name__, e)

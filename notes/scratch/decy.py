import re, sys
TYPE = r'(?:np\.ndarray\[[^\]]*\]|np\.\w+_t(?:\[[:,]*\])?|Py_ssize_t(?:\[[:,]*\])?|bint|int|double|Split)'
TYPEBR = r'(?:np\.ndarray\[[^\]]*\]|np\.\w+_t\[[:,]*\]|Py_ssize_t\[[:,]*\])'
def strip_args(argstr):
    # split on commas not inside brackets
    out=[];depth=0;cur=''
    for ch in argstr:
        if ch in '[(': depth+=1
        if ch in '])': depth-=1
        if ch==',' and depth==0: out.append(cur); cur=''
        else: cur+=ch
    if cur.strip(): out.append(cur)
    res=[]
    for a in out:
        a=a.strip()
        m=re.match(r'^(?:'+TYPE+r'\s+|'+TYPEBR+r'\s*)(\w+\s*(?:=.*)?)$',a)
        res.append(m.group(1) if m else a)
    return ', '.join(res)
def convert(src):
    lines=src.split('\n'); out=[]; i=0
    while i<len(lines):
        l=lines[i]
        s=l.strip(); ind=l[:len(l)-len(l.lstrip())]
        if s.startswith('cimport ') or s=='np.import_array()': i+=1; continue
        if s.startswith('cdef class '): out.append(ind+s[5:]); i+=1; continue
        if s.startswith('cdef readonly '): out.append(ind+'pass'); i+=1; continue
        m=re.match(r'^(cdef|cpdef|def)\s+(?:'+TYPE+r'\s+)?(\w+)\s*\(',s)
        if m and (s.startswith('cdef') or s.startswith('cpdef') or s.startswith('def')) and not re.match(r'^cdef\s+'+TYPE+r'\s+\w+\s*(=|,|$)',s):
            # gather until the closing "):" or ") -> X:"
            full=s; j=i
            while not re.search(r'\)\s*(->\s*\w+\s*)?:\s*$',full):
                j+=1; full+=' '+lines[j].strip()
            name=m.group(2)
            args=full[full.index('(')+1:full.rindex(')')]
            out.append(ind+f'def {name}({strip_args(args)}):'); i=j+1; continue
        m=re.match(r'^cdef\s+'+TYPE+r'\s+(.*)$',s)
        if m:
            rest=m.group(1)
            if '=' in rest: out.append(ind+rest)
            else: out.append(ind+'pass')
            i+=1; continue
        out.append(l); i+=1
    return '\n'.join(out)
if __name__=='__main__':
    print(convert(open(sys.argv[1]).read()))

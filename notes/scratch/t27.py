import sys; sys.path.insert(0,'/tmp/gc/repo')
import warnings; warnings.simplefilter('ignore')
import numpy as np, time
from scipy import stats
from scipy.linalg import block_diag
from gemclus.data import *
def ks(z,cdf): 
    n=len(z); D=stats.kstest(z,cdf).statistic; return D*np.sqrt(n)
t0=time.time()
# draw_gmm 2d
loc=[[0.,1],[3,-2],[-4,0]]; cov=[np.array([[2,.5],[.5,1]]),np.eye(2)*0.25,np.array([[1,-.8],[-.8,1]])]; pv=[0.5,0.25,0.25]
X,y=draw_gmm(60000,loc,cov,pv,random_state=1)
print('gmm time',time.time()-t0, X.shape, np.bincount(y)/len(y))
for k in range(3):
    Z=np.linalg.solve(np.linalg.cholesky(cov[k]),(X[y==k]-loc[k]).T).T
    print(k,[round(ks(Z[:,j],'norm'),2) for j in range(2)], np.round(np.cov(Z.T),3).tolist())
# student
for df in [1,3,10]:
    S=np.array([[2,.3],[.3,.5]]); Xs=multivariate_student_t(50000,[1,-1],S,df,random_state=2)
    Z=np.linalg.solve(np.linalg.cholesky(S),(Xs-[1,-1]).T).T
    print('student df',df,[round(ks(Z[:,j],stats.t(df).cdf),2) for j in range(2)])
# gstm
X,y=gstm(40000,alpha=2,df=3,random_state=3); print('gstm',np.bincount(y.astype(int))/len(y))
locs=np.array([[1,1],[1,-1],[-1,1],[-1,-1]])*2
for k in range(3): print(k,[round(ks(X[y==k][:,j]-locs[k,j],'norm'),2) for j in range(2)])
print(3,[round(ks(X[y==3][:,j]-locs[3,j],stats.t(3).cdf),2) for j in range(2)])
# celeux_one
X,y=celeux_one(30000,p=4,mu=1.7,random_state=4); print('c1',X.shape,np.bincount(y)/len(y),[np.round(X[y==k].mean(0),2).tolist() for k in range(3)])
# celeux_two
X,y=celeux_two(60000,random_state=5); print('c2',X.shape,np.bincount(y)/len(y),[np.round(X[y==k,:2].mean(0),2).tolist() for k in range(4)])
G=np.c_[np.ones(len(X)),X[:,:2]]; coef,res,_,_=np.linalg.lstsq(G,X[:,2:11],rcond=None)
print(np.round(coef,2)); R=X[:,2:11]-G@coef; print(np.round(np.cov(R.T),2)[[0,3,5,6,7,8],:][:, [0,3,5,6,7,8]])
print('X12-14 mean',np.round(X[:,11:].mean(0),2), np.round(np.cov(X[:,11:].T),2).tolist())

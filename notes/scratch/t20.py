import sys; sys.path.insert(0,'/tmp/gc/repo')
import warnings; warnings.simplefilter('ignore')
import numpy as np
from gemclus.sparse import *
import gemclus.sparse._base_sparse as bs
rs=np.random.RandomState(0)
def nsel(ws, cls):
    W = ws[0] if 'Linear' in cls.__name__ else ws[2]
    return int(np.sum(np.any(W!=0,axis=1)))
bad=0; tot=0; classes={}
for trial in range(120):
    n=rs.randint(8,20); d=rs.randint(3,7)
    X=np.c_[np.r_[rs.randn(n//2,2)+3,rs.randn(n-n//2,2)-3], rs.randn(n,d-2)]
    cls=[SparseLinearModel,SparseMLPModel,SparseLinearMI,SparseLinearMMD,SparseMLPMMD][trial%5]
    kw=dict(n_hidden_dim=3) if 'MLP' in cls.__name__ else {}
    alpha=float(rs.choice([0.05,0.3,1.0])); mult=float(rs.choice([1.3,2.0,3.0])); kt=float(rs.choice([0.5,0.9,1.0])); minf=int(rs.randint(1,d))
    bsz=rs.choice([None,5,n])
    m=cls(n_clusters=2,alpha=alpha,max_iter=int(rs.randint(1,8)),learning_rate=float(rs.choice([1e-2,0.1])),random_state=int(rs.randint(100)),batch_size=bsz,**kw)
    rec=[]
    orig=bs.compute_val_score
    def spy(clf,*a,**k):
        r=orig(clf,*a,**k); rec.append(([w.copy() for w in clf._get_weights()], r, clf.alpha)); return r
    bs.compute_val_score=spy
    try:
        bw,gs,pens,als,nf=m.path(X,alpha_multiplier=mult,min_features=minf,keep_threshold=kt,max_patience=2)
    finally: bs.compute_val_score=orig
    tot+=1
    # reconstruct: rec[0] = initial; then per outer step: 1 call at start + >=1 epoch calls; step end = last call whose following call has a different alpha or end
    init_w,(init_score,_),_=rec[0]
    # group subsequent calls by alpha value sequence: step start call has clf.alpha==als[t]
    steps=[]; i=1
    for t,a in enumerate(als):
        j=i
        while j<len(rec) and rec[j][2]==a: j+=1
        steps.append(rec[j-1]); i=j
    ok = len(gs)==len(pens)==len(als)==len(nf)
    for t,(w,(sc,l1),a) in enumerate(steps):
        ok&= (sc==gs[t]) and nsel(w,cls)==nf[t]
    best=init_score; bestw=init_w
    for t,(w,(sc,l1),a) in enumerate(steps):
        if sc>=best and nf[t]==X.shape[1]: best=sc
        if sc>=kt*best: bestw=w
    ok&= all(np.array_equal(a,b) for a,b in zip(bestw,bw))
    ok&= all(np.array_equal(a,b) for a,b in zip(bw,m._get_weights()))
    ok&= (len(als)==0 or (als[0]==alpha and all(als[i+1]==als[i]*mult for i in range(len(als)-1))))
    ok&= (len(nf)==0 or nf[-1]<=minf)
    which=[t for t,(w,_,_) in enumerate(steps) if all(np.array_equal(a,b) for a,b in zip(w,bw))]
    key=('init' if not which else ('last' if which[-1]==len(steps)-1 else 'middle'))
    classes[key]=classes.get(key,0)+1
    if not ok: bad+=1; print('BAD',cls.__name__,alpha,mult,kt,minf,bsz,len(als))
print(tot,bad,classes)

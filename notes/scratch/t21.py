import sys; sys.path.insert(0,'/tmp/gc/repo')
import warnings; warnings.simplefilter('ignore')
import numpy as np
from scipy.special import softmax
from sklearn.base import clone
from gemclus.linear import *; from gemclus.mlp import *; from gemclus.sparse import *; from gemclus.nonparametric import *; from gemclus.tree import *
rs=np.random.RandomState(0)
# C15 cell rule
bad=0
for t in range(200):
    n=15; d=rs.randint(1,4); nc=rs.randint(1,4)
    X=rs.randn(n,d)
    mask=rs.rand(d)<0.7; 
    if not mask.any(): mask[0]=True
    m=Douglas(n_clusters=3,gemini='mmd_ova',n_cuts=nc,feature_mask=mask,max_iter=3,learning_rate=0.3,random_state=t).fit(X)
    used=[i for i,_ in m.cut_points_list_]
    assert m.leaf_scores_.shape[0]==(nc+1)**len(used)
    m.set_params(temperature=1e-7)
    Q=rs.randn(40,d)*2
    cuts=[c for _,c in m.cut_points_list_]
    far=np.ones(len(Q),bool)
    cell=np.zeros(len(Q),int)
    for (f,c) in m.cut_points_list_:
        far&= np.all(np.abs(Q[:,[f]]-c[None,:])>1e-3,axis=1)
        cell=cell*(nc+1)+np.sum(Q[:,[f]]>c[None,:],axis=1)
    pp=m.predict_proba(Q)
    exp=softmax(m.leaf_scores_[cell],axis=1)
    err=np.abs(pp-exp)[far].max() if far.any() else 0
    if err>1e-9: bad+=1; print('cell mismatch',err,nc,d,mask)
    # masked inert
    Q2=Q.copy(); Q2[:,~mask]=rs.randn(len(Q),(~mask).sum())*100
    if not np.array_equal(m.predict_proba(Q2),pp): bad+=1; print('mask not inert')
print('C15 bad',bad)
# C12 twice
X=rs.randn(14,3)
for cls in [LinearModel,LinearMMD,LinearWasserstein,RIM,KernelRIM,MLPModel,SparseLinearModel,SparseMLPModel,CategoricalModel,Douglas,Kauri]:
    kw={} if cls is Kauri else dict(max_iter=4,random_state=3)
    if cls is Kauri: kw=dict(max_features=2,random_state=3)
    m=cls(**kw); Xc=X.copy()
    m.fit(X); a=[w.copy() for w in (m._get_weights() if cls is not Kauri else [m.labels_])]
    m.fit(rs.randn(9,3)); m.predict(X[:9])
    m.fit(X); b=[w.copy() for w in (m._get_weights() if cls is not Kauri else [m.labels_])]
    c=clone(m).fit(X); cc=(c._get_weights() if cls is not Kauri else [c.labels_])
    print(cls.__name__, all(np.array_equal(x,y) for x,y in zip(a,b)), all(np.array_equal(x,y) for x,y in zip(a,cc)), np.array_equal(X,Xc))

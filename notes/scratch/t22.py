import sys; sys.path.insert(0,'/tmp/gc/repo')
import numpy as np, itertools
from gemclus.tree._utils import find_best_split
def stock(K,a,b): return K[np.ix_(a,b)].sum()
def J(labels,K):
    s=0
    for v in np.unique(labels):
        idx=np.where(labels==v)[0]; s+=K[np.ix_(idx,idx)].sum()/len(idx)
    return s
def brute(Kmat,X,explore,leaf_of,cl_of_leaf,nK,Kmax,minleaf,feats,emu_ds=False,emu_typo=False):
    labels=cl_of_leaf[leaf_of]; base=J(labels,Kmat); best=0.0; kind=None
    for leaf in explore:
        idx=np.where(leaf_of==leaf)[0]; k=cl_of_leaf[leaf]; Ck=np.where(labels==k)[0]; c=len(Ck); nl=len(idx)
        for f in feats:
            order=np.argsort(X[idx,f],kind='stable'); srt=idx[order]
            for ls in range(1,nl):
                if ls<minleaf or nl-ls<minleaf: continue
                if X[srt[ls-1],f]==X[srt[ls],f]: continue
                left=srt[:ls]; right=srt[ls:]
                def real(lt,rt):
                    new=labels.copy(); new[left]=lt; new[right]=rt; return J(new,Kmat)-base
                cands=[]
                if nK<Kmax: cands+=[(real(nK,k),'star'),(real(k,nK),'star')]
                if nK<Kmax-1 and nl!=c:
                    if emu_ds:
                        g=stock(Kmat,Ck,Ck); lsq=stock(Kmat,idx,idx); slsq=stock(Kmat,left,left); srsq=stock(Kmat,right,right)
                        D=c-nl
                        leaf_star=lsq*(1/nl+1/D)+g*(1/D-1/c)-2*Kmat[Ck,f].sum()/D
                        D2=nl-ls; slsr=(lsq-slsq-srsq)/2
                        split_star=slsq*(1/ls+1/D2)+lsq*(1/D2-1/nl)-(slsq+slsr)/D2
                        cands.append((leaf_star+split_star,'double'))
                    else: cands.append((real(nK,nK+1),'double'))
                others=[q for q in range(nK) if q!=k]
                for kp in others: cands+=[(real(kp,k),'switch'),(real(k,kp),'switch')]
                if nK>=3 and nl!=c:
                    if emu_typo:
                        # replicate top-2 tracking with typo
                        tgl=sgl=tgr=sgr=-np.inf; tkl=skl=tkr=skr=-1
                        Lsw={kp:real(kp,k) for kp in others}; Rsw={kp:real(k,kp) for kp in others}
                        for kp in others:
                            l_,r_=Lsw[kp],Rsw[kp]
                            if l_>=tgl: tgl,sgl=l_,tgl; tkl,skl=kp,tkl
                            elif l_>=sgl: sgl=l_; skl=kp
                            if r_>=tgr: tgr,sgr=r_,tgr; tkr,skr=kp,tkr
                            elif l_>=sgr: sgr=r_; skr=kp
                        if tkl!=tkr: kl,kr=tkl,tkr
                        elif tgl+sgr>tgr+sgl: kl,kr=tkl,skr
                        else: kl,kr=skl,tkr
                        if kl>=0 and kr>=0 and kl!=kr: cands.append((real(kl,kr),'realloc'))
                        elif kl>=0 and kr>=0: cands.append((real(kl,kr),'realloc_same'))
                    else:
                        for k1,k2 in itertools.permutations(others,2): cands.append((real(k1,k2),'realloc'))
                for g_,kd in cands:
                    if g_>best: best=g_; kind=kd
    return best,kind
rs=np.random.RandomState(7)
stats={}
for trial in range(4000):
    n=rs.randint(5,13); d=rs.randint(1,3)
    X=rs.randint(-3,4,size=(n,d)).astype(float)
    A=rs.randn(n,n); Kmat=A@A.T
    L=min(rs.randint(2,7),n)
    leaf_of=rs.randint(0,L,size=n); leaf_of[:L]=np.arange(L)
    nK=rs.randint(1,L+1)
    cl=rs.randint(0,nK,size=L); cl[:nK]=np.arange(nK)
    Kmax=nK+rs.randint(0,3); minleaf=rs.randint(1,3)
    Z=np.zeros((L+2,n),dtype=np.int64); Z[leaf_of,np.arange(n)]=1
    Y=np.zeros((Kmax,L+2),dtype=np.int64); Y[cl,np.arange(L)]=1
    explore=np.array(sorted(rs.choice(L,size=rs.randint(1,L+1),replace=False)),dtype=np.int64)
    sp=find_best_split(Kmat,X,explore,Y,Z,nK,Kmax,L,minleaf,np.arange(d,dtype=np.intp))
    gi=max(sp.gain,0.0)
    def close(a,b): return abs(a-b)<=1e-8*max(1,abs(a),abs(b))
    b0,k0=brute(Kmat,X,explore,leaf_of,cl,nK,Kmax,minleaf,range(d))
    if close(gi,b0): key='ok_'+str(k0)
    else:
        b1,_=brute(Kmat,X,explore,leaf_of,cl,nK,Kmax,minleaf,range(d),emu_ds=True)
        b2,_=brute(Kmat,X,explore,leaf_of,cl,nK,Kmax,minleaf,range(d),emu_typo=True)
        b3,_=brute(Kmat,X,explore,leaf_of,cl,nK,Kmax,minleaf,range(d),emu_ds=True,emu_typo=True)
        if close(gi,b1): key='KNOWN_D12'
        elif close(gi,b2): key='KNOWN_D13'
        elif close(gi,b3): key='KNOWN_D12+D13'
        else:
            key='UNEXPLAINED'; print('unexplained',gi,b0,b1,b2,b3,(sp.leaf,sp.feature,sp.threshold,sp.left_target,sp.right_target),nK,Kmax)
    stats[key]=stats.get(key,0)+1
print(stats)

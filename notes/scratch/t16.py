import sys; sys.path.insert(0,'/tmp/gc/repo')
import warnings; warnings.simplefilter('ignore')
import numpy as np
from gemclus.sparse._prox_grad import mlp_prox_grad, linear_prox_grad, group_mlp_prox_grad, group_linear_prox_grad
def obj(beta,theta,v,u,alpha): return 0.5*np.sum((beta-v)**2)+0.5*np.sum((theta-u)**2)+alpha*np.linalg.norm(beta)
def ref_row(v,u,alpha,M):
    nv=np.linalg.norm(v); a=np.abs(u)
    def g(r): return 0.5*(r-nv)**2+alpha*r+0.5*np.sum(np.maximum(a-M*r,0)**2)
    cands=[0.0]
    srt=np.sort(a)[::-1]
    for s in range(len(a)+1):
        r=(nv-alpha+M*srt[:s].sum())/(1+s*M*M); cands.append(max(r,0.0))
    if M>0: cands+=list(a/M)
    r=min(cands,key=g)
    beta=r*v/nv if nv>0 else np.zeros_like(v)
    theta=np.sign(u)*np.minimum(a,M*r)
    return beta,theta
rs=np.random.RandomState(0)
bad=0;tot=0
for t in range(20000):
    d=rs.randint(1,5);h=rs.randint(1,6);k=rs.randint(1,4)
    mode=rs.randint(3)
    v=rs.randn(d,k) if mode else rs.randint(-2,3,size=(d,k)).astype(float)
    u=rs.randn(d,h)*rs.choice([0.1,1,5]) if mode!=1 else rs.randint(-2,3,size=(d,h)).astype(float)
    alpha=rs.choice([0,0.01,0.5,1,3]); M=rs.choice([0,0.1,1,10,100])
    # enforce scope
    for i in range(d):
        if np.all(v[i]==0): v[i,0]=1.0
    b,th=mlp_prox_grad(v,u,alpha,M)
    for i in range(d):
        rb,rt=ref_row(v[i],u[i],alpha,M); tot+=1
        if np.abs(rb-b[i]).max()>1e-9 or np.abs(rt-th[i]).max()>1e-9:
            bad+=1
            if bad<4: print('MISMATCH',v[i],u[i],alpha,M,'impl',b[i],th[i],'ref',rb,rt, obj(b[i],th[i],v[i],u[i],alpha), obj(rb,rt,v[i],u[i],alpha))
print(tot,bad)

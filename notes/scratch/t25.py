import sys; sys.path.insert(0,'/tmp/gc/repo')
import warnings; warnings.simplefilter('ignore')
import numpy as np, math
from gemclus.linear import *; from gemclus.mlp import *; from gemclus.sparse import *; from gemclus.nonparametric import *; from gemclus.tree import *
from gemclus import add_mlcl_constraint
import sklearn.neural_network._stochastic_optimizers as so
rs=np.random.RandomState(0)
viol={}
def V(k,info=None):
    viol[k]=viol.get(k,0)+1
    if viol[k]<3: print(k,info)
fams=[lambda **k:LinearModel(gemini='mmd_ova',**k),lambda **k:MLPModel(gemini='kl_ova',n_hidden_dim=3,**k),lambda **k:KernelRIM(**k),lambda **k:Douglas(gemini='mmd_ova',**k),lambda **k:SparseLinearModel(gemini='wasserstein_ova',**k),lambda **k:CategoricalModel(gemini='mmd_ovo',**{a:b for a,b in k.items() if a!='batch_size'}),lambda **k:LinearMMD(kernel='precomputed',**k)]
for trial in range(300):
    n=rs.randint(2,20); d=3
    X=np.c_[np.arange(n),rs.randn(n,d-1)]
    bs=rs.choice([None]+list(range(1,n+3))); mi=rs.randint(1,4)
    fi=trial%len(fams)
    if fi==2: bs=None  # KernelRIM batch defect D3
    m=fams[fi](n_clusters=2,max_iter=mi,batch_size=bs,random_state=trial)
    A=None
    if fi==6:
        B=rs.randn(n,n); A=B@B.T
    deco = rs.rand()<0.4
    rec=[]; full=[]
    ob=m._batchify
    def bat(Xf,aff=None,random_state=None):
        full.append((Xf,aff)); ep=[]; rec.append(ep)
        for xb,ab in ob(Xf,aff,random_state):
            ep.append((np.array(xb,copy=True),None if ab is None else ab.copy())); yield xb,ab
    m._batchify=bat
    if deco:
        ml=[(0,1)] if n>2 else []
        add_mlcl_constraint(m,must_link=ml or None,cannot_link=[(n-1,0)] if n>2 else None)
    calls=[0]; orig=so.BaseOptimizer.update_params
    def upd(self,p,g): calls[0]+=1; return orig(self,p,g)
    so.BaseOptimizer.update_params=upd
    try: m.fit(X,A)
    except Exception as e:
        V('EXC '+type(e).__name__+' '+str(e)[:60],(fi,n,bs)); continue
    finally: so.BaseOptimizer.update_params=orig
    b=n if (bs is None or fi==5) else bs
    if calls[0]!=mi*math.ceil(n/b): V('steps',(fi,calls[0],mi,n,b))
    if len(rec)!=mi: V('epochs')
    for (Xf,aff),ep in zip(full,rec):
        Xf=np.asarray(Xf)
        if deco:
            idxs=[xb for xb,_ in ep]  # under decoration, my wrapper sees indices
        else:
            # match rows
            key={Xf[i].tobytes():i for i in range(len(Xf))}
            idxs=[np.array([key[r.tobytes()] for r in xb]) for xb,_ in ep]
        allidx=np.concatenate(idxs)
        if sorted(allidx.tolist())!=list(range(n)): V('partition',(fi,n,b))
        if any(len(i)>b for i in idxs): V('size')
        for ix,(xb,ab) in zip(idxs,ep):
            if aff is not None and not np.array_equal(ab,aff[ix][:,ix]): V('affinity',(fi,))
            if aff is None and ab is not None: V('aff none')
    if deco and hasattr(m._batchify,'indices'):
        if m._batchify.indices!=rec[-1][-1][0].tolist(): pass
print(viol)

import sys; sys.path.insert(0,'/tmp/gc/repo')
import warnings; warnings.simplefilter('ignore')
import numpy as np
from sklearn.metrics import pairwise_kernels, pairwise_distances
from gemclus.linear import *; from gemclus.mlp import *; from gemclus.sparse import *; from gemclus.nonparametric import *; from gemclus.tree import *
from gemclus.gemini import *
rs=np.random.RandomState(0)
def weq(a,b): return all(np.array_equal(x,y) for x,y in zip(a._get_weights(),b._get_weights())) and np.array_equal(a.labels_,b.labels_)
res={}
for trial in range(60):
    n=rs.randint(5,15); X=np.abs(rs.randn(n,3))
    kern=rs.choice(['rbf','poly','sigmoid','laplacian','chi2','cosine','linear']); params={'gamma':float(rs.choice([0.1,1.0]))} if kern not in('cosine','linear') else {}
    ovo=bool(rs.rand()<0.5); bs=rs.choice([None,4]); solver=rs.choice(['adam','sgd'])
    Km=pairwise_kernels(X,metric=kern,**params)
    for name,cls,generic in [('LinearMMD',LinearMMD,LinearModel),('MLPMMD',MLPMMD,MLPModel),('SparseLinearMMD',SparseLinearMMD,SparseLinearModel),('SparseMLPMMD',SparseMLPMMD,SparseMLPModel),('CategoricalMMD',CategoricalMMD,CategoricalModel)]:
        kw=dict(n_clusters=2,max_iter=3,solver=solver,random_state=trial)
        if 'Categorical' not in name: kw['batch_size']=bs
        a=cls(kernel=kern,kernel_params=params or None,ovo=ovo,**kw).fit(X)
        b=cls(kernel='precomputed',ovo=ovo,**kw).fit(X,Km)
        c=cls(kernel=lambda A: pairwise_kernels(A,metric=kern,**params),ovo=ovo,**kw).fit(X)
        d=generic(gemini=MMDGEMINI(ovo=ovo,kernel=kern,kernel_params=params or None),**kw).fit(X)
        ok=(weq(a,b),weq(a,c),weq(a,d), a.score(X)==b.score(X,Km)==d.score(X))
        r=res.setdefault(name,[0,0]); r[0]+=1; r[1]+=int(all(ok))
        if not all(ok): print(name,kern,ovo,bs,ok, a.score(X)-b.score(X,Km))
    met=rs.choice(['euclidean','l1','cosine','manhattan'])
    D=pairwise_distances(X,metric=met)
    for name,cls,generic in [('LinearW',LinearWasserstein,LinearModel),('MLPW',MLPWasserstein,MLPModel),('CatW',CategoricalWasserstein,CategoricalModel)]:
        kw=dict(n_clusters=2,max_iter=3,solver=solver,random_state=trial)
        if 'Cat' not in name: kw['batch_size']=bs
        a=cls(metric=met,ovo=ovo,**kw).fit(X); b=cls(metric='precomputed',ovo=ovo,**kw).fit(X,D)
        d=generic(gemini=WassersteinGEMINI(ovo=ovo,metric=met),**kw).fit(X)
        ok=(weq(a,b),weq(a,d),a.score(X)==b.score(X,D))
        r=res.setdefault(name,[0,0]); r[0]+=1; r[1]+=int(all(ok))
        if not all(ok): print(name,met,ovo,bs,ok)
    # misc equivalences
    kw=dict(n_clusters=2,max_iter=3,solver=solver,random_state=trial,batch_size=bs)
    ok=(weq(RIM(reg=0.0,**kw).fit(X),LinearModel(gemini='mi',**kw).fit(X)), weq(SparseLinearMI(alpha=0.3,**kw).fit(X),SparseLinearModel(gemini='mi',alpha=0.3,**kw).fit(X)), weq(LinearModel(gemini=None,**kw).fit(X),LinearModel(gemini='mmd_ova',**kw).fit(X)), weq(LinearModel(gemini='kl_ova',**kw).fit(X),LinearModel(gemini=KLGEMINI(),**kw).fit(X)))
    r=res.setdefault('misc',[0,0]); r[0]+=1; r[1]+=int(all(ok))
    if not all(ok): print('misc',ok)
print(res)

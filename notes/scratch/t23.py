import sys; sys.path.insert(0,'/tmp/gc/repo')
import warnings; warnings.simplefilter('ignore')
import numpy as np
from gemclus.sparse import *
import sklearn.neural_network._stochastic_optimizers as so
rs=np.random.RandomState(0)
def glasso(W,a,groups):
    Z=W.copy()
    for g in groups:
        nrm=np.sqrt((W[g]**2).sum())
        Z[g]=0.0 if nrm<=a else W[g]*(1-a/nrm)
    return Z
def hier(v,u,alpha,M):
    nv=np.linalg.norm(v); a=np.abs(u)
    def gg(r): return 0.5*(r-nv)**2+alpha*r+0.5*np.sum(np.maximum(a-M*r,0)**2)
    cands=[0.0]; srt=np.sort(a.ravel())[::-1]
    for s in range(a.size+1): cands.append(max((nv-alpha+M*srt[:s].sum())/(1+s*M*M),0.0))
    if M>0: cands+=list(a.ravel()/M)
    r=min(cands,key=gg)
    return (r*v/nv if nv>0 else 0*v), np.sign(u)*np.minimum(a,M*r)
worst=0; cnt=0; zeroed=0
for trial in range(60):
    n=12; d=rs.randint(2,6); X=rs.randn(n,d)
    mlp=trial%2==1
    groups=None if rs.rand()<0.5 else [[0,1]]
    solver=rs.choice(['adam','sgd']); alpha=float(rs.choice([0.1,1,5])); lr=float(rs.choice([0.01,0.2]))
    m=(SparseMLPModel(n_hidden_dim=3,M=float(rs.choice([0.5,10])),groups=groups,n_clusters=2,alpha=alpha,solver=solver,learning_rate=lr,max_iter=4,batch_size=5,random_state=trial) if mlp else
       SparseLinearModel(groups=groups,n_clusters=2,alpha=alpha,solver=solver,learning_rate=lr,max_iter=4,batch_size=5,random_state=trial))
    snaps=[]
    orig=so.BaseOptimizer.update_params
    def upd(self,params,grads):
        r=orig(self,params,grads); snaps.append(([p.copy() for p in params], self.learning_rate)); return r
    so.BaseOptimizer.update_params=upd
    ouw=type(m)._update_weights
    post=[]
    def uw(self,w,g):
        ouw(self,w,g); post.append([p.copy() for p in w])
    type(m)._update_weights=uw
    try: m.fit(X)
    finally:
        so.BaseOptimizer.update_params=orig; type(m)._update_weights=ouw
    G=m.groups_ if m.groups_ is not None else [[i] for i in range(d)]
    for (before,lrc),after in zip(snaps,post):
        thr=alpha*lrc; cnt+=1
        if mlp:
            W1,W2,Ws=before[0],before[1],before[2]
            eS=Ws.copy(); e1=W1.copy()
            for g in G:
                b,t=hier(Ws[g].ravel(),W1[g].ravel(),thr,m.M); eS[g]=b.reshape(Ws[g].shape); e1[g]=t.reshape(W1[g].shape)
            err=max(np.abs(eS-after[2]).max(),np.abs(e1-after[0]).max()); zeroed+=int((np.abs(after[2]).sum(1)==0).sum())
        else:
            e=glasso(before[0],thr,G); err=np.abs(e-after[0]).max(); zeroed+=int((np.abs(after[0]).sum(1)==0).sum())
        worst=max(worst,err)
print(cnt,worst,zeroed)

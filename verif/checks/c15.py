"""C15 - Douglas: masked features inert, valid soft bins, active points as defined."""
import warnings

import numpy as np
from hypothesis import strategies as st

from .. import estimators as E
from .. import gens
from ..harness import Sub, Violation

QUICK_SCALE = 10  # quick budgets below are multiplied by this (kept at about half a minute on 8 processes)
THOROUGH_SCALE = 20  # thorough budgets below are multiplied by this (about ten minutes on 16 processes)

RULE = ("fitted Douglas models: d in [1,4], feature masks with >=1 used feature (or None), n_cuts in [1,4], temperatures "
        "1e-4..10, any GEMINI name; after fit the cut points are overwritten in place by drawn, distinct, unsorted values "
        "so that every order occurs; query points keep 1e-3 away from cut points for the zero-temperature cell rule; data "
        "for find_active_points is placed below, above, between and across the cut points, touching them exactly in some "
        "cases. Non-trivial: >=2 used features or >=2 cuts (and, for find_active_points, a feature whose range lies "
        "strictly between two cut points or touches one).")
ASSUMPTIONS = ["the order in which leaves are numbered is not assumed: predictions must be constant inside each grid cell, equal "
               "to the softmax of one leaf's scores, and different cells must use different leaves"]


@st.composite
def model_case(draw):
    d = draw(st.integers(1, 4))
    n_cuts = draw(st.integers(1, 4))
    mask = draw(st.one_of(st.none(), st.lists(st.booleans(), min_size=d, max_size=d)))
    if mask is not None and not any(mask):
        mask[draw(st.integers(0, d - 1))] = True
    used = d if mask is None else sum(mask)
    if (n_cuts + 1) ** used > 300:
        n_cuts = 1
    cuts = draw(st.lists(st.lists(st.integers(-8, 8), min_size=n_cuts, max_size=n_cuts, unique=True), min_size=used, max_size=used))
    return {"d": d, "n_cuts": n_cuts, "mask": mask, "K": draw(st.integers(1, 4)), "n": draw(st.integers(4, 12)),
            "temperature": draw(st.sampled_from([0.1, 1e-4, 1.0, 10.0, 1e-2])),
            "gemini": draw(st.sampled_from(["wasserstein_ova", "mmd_ova", "mi", "tv_ovo", "hellinger_ova"])),
            "lr": draw(st.sampled_from([0.01, 0.5])), "seed": draw(st.integers(0, 10 ** 6)), "cuts": cuts,
            "cut_scale": draw(st.sampled_from([0.5, 1.0, 0.1])), "override_cuts": draw(st.booleans()),
            "xseed": draw(gens.seeds), "batch_size": draw(st.one_of(st.none(), st.integers(1, 6)))}


def fit_model(case):
    from gemclus.tree import Douglas
    rs = np.random.RandomState(case["xseed"])
    X = rs.randn(case["n"], case["d"]) * 2
    kw = dict(n_clusters=case["K"], gemini=case["gemini"], n_cuts=case["n_cuts"], temperature=case["temperature"], max_iter=3,
              learning_rate=case["lr"], random_state=case["seed"], batch_size=case["batch_size"])
    if case["mask"] is not None:
        kw["feature_mask"] = np.array(case["mask"], dtype=bool)
    est = Douglas(**kw)
    with warnings.catch_warnings():
        warnings.simplefilter("ignore")
        with np.errstate(all="ignore"):
            est.fit(X)
    used = [i for i in range(case["d"]) if case["mask"] is None or case["mask"][i]]
    if case["override_cuts"]:
        for (fi, arr), vals in zip(est.cut_points_list_, case["cuts"]):
            arr[:] = np.array(vals, dtype=float) * case["cut_scale"]
    return est, X, used


def label_of(case):
    return (f"Douglas(n_clusters={case['K']}, gemini={case['gemini']}, n_cuts={case['n_cuts']}, mask={case['mask']}, "
            f"temperature={case['temperature']}, lr={case['lr']}, batch_size={case['batch_size']}) on n={case['n']}, d={case['d']}")


def oracle_model(case):
    label = label_of(case)
    try:
        est, X, used = fit_model(case)
    except Exception as e:
        raise Violation(f"{label}: fit raised {type(e).__name__}: {e}")
    d, n_cuts = case["d"], case["n_cuts"]
    if [fi for fi, _ in est.cut_points_list_] != used:
        raise Violation(f"{label}: cut points exist for features {[fi for fi, _ in est.cut_points_list_]}, the mask selects {used}")
    if est.leaf_scores_.shape != ((n_cuts + 1) ** len(used), case["K"]):
        raise Violation(f"{label}: leaf_scores_ has shape {est.leaf_scores_.shape}, expected {((n_cuts + 1) ** len(used), case['K'])}")
    rs = np.random.RandomState(case["xseed"] + 1)
    Q = rs.randn(10, d) * 4
    with np.errstate(all="ignore"):
        P0 = est.predict_proba(Q)
        masked = [i for i in range(d) if i not in used]
        if masked:
            for scale in (3.0, 1e6):
                Q2 = Q.copy()
                Q2[:, masked] = rs.randn(len(Q), len(masked)) * scale
                if not np.array_equal(est.predict_proba(Q2), P0):
                    raise Violation(f"{label}: changing the masked features {masked} changes predict_proba")
            # masked columns are not read at all: with scikit-learn's input validation switched off (assume_finite=True, a
            # documented configuration) even missing values in them change nothing
            import sklearn
            with sklearn.config_context(assume_finite=True):
                for bad in (np.nan, np.inf):
                    Q3 = Q.copy()
                    Q3[::2, masked] = bad
                    try:
                        P3 = est.predict_proba(Q3)
                    except Exception as e:
                        raise Violation(f"{label}: predict_proba raised {type(e).__name__}: {e} for {bad} in the masked features {masked} "
                                        f"under assume_finite=True")
                    if not np.array_equal(P3, P0):
                        raise Violation(f"{label}: {bad} in the masked features {masked} changes predict_proba (assume_finite=True): "
                                        f"the masked columns are read")
        n_leaves = (n_cuts + 1) ** len(used)
        if n_leaves >= 64:
            # many leaves x many query rows (a membership matrix beyond 2^20 entries): still one probability vector per sample,
            # the same as when the sample is predicted alone
            m_big = 2 ** 20 // n_leaves + 37
            Qb = rs.randn(m_big, d) * 4
            Pb = est.predict_proba(Qb)
            if Pb.shape != (m_big, case["K"]) or not np.all(np.isfinite(Pb)) or np.max(np.abs(Pb.sum(1) - 1)) > 1e-9:
                raise Violation(f"{label}: predict_proba of {m_big} rows ({n_leaves} leaves) does not return one probability vector per sample")
            tail = est.predict_proba(Qb[-40:])
            if np.max(np.abs(tail - Pb[-40:])) > 1e-10:
                raise Violation(f"{label}: the last rows of a query of {m_big} rows ({n_leaves} leaves) are predicted differently alone")
        # soft memberships at the model's own temperature and at others
        for T in (case["temperature"], 1e-4, 10.0):
            est.temperature = T
            est._infer(Q, retain=True)
            leaf = est._leaf
            if leaf.shape != (len(Q), (n_cuts + 1) ** len(used)) or leaf.min() < 0 or np.max(np.abs(leaf.sum(1) - 1)) > 1e-9 \
                    or not np.all(np.isfinite(leaf)):
                raise Violation(f"{label}: leaf memberships at temperature {T} are not probability vectors "
                                f"(shape {leaf.shape}, row sums {leaf.sum(1).tolist()[:3]})")
            for b in est._all_binnings:
                if b.shape != (len(Q), n_cuts + 1) or b.min() < 0 or np.max(np.abs(b.sum(1) - 1)) > 1e-9:
                    raise Violation(f"{label}: bin memberships at temperature {T} are not probability vectors")
        # zero-temperature limit: constant inside each cell of the grid
        est.temperature = 1e-7
        Qc = Q.copy()
        for (fi, arr) in est.cut_points_list_:
            for r in range(len(Qc)):
                while np.min(np.abs(arr - Qc[r, fi])) < 1e-3:
                    Qc[r, fi] += 2.5e-3
        P = est.predict_proba(Qc)
        # a second point in the same cell of every query point (moved inside the interval between adjacent cut points)
        Qd = Qc.copy()
        for (fi, arr) in est.cut_points_list_:
            srt = np.sort(arr)
            for r in range(len(Qd)):
                below = srt[srt < Qc[r, fi]]
                above = srt[srt > Qc[r, fi]]
                lo = below.max() + 1e-3 if len(below) else Qc[r, fi] - 5.0
                hi = above.min() - 1e-3 if len(above) else Qc[r, fi] + 5.0
                Qd[r, fi] = lo + (hi - lo) * rs.rand() if hi > lo else Qc[r, fi]
        Pd = est.predict_proba(Qd)
        Z = est.leaf_scores_
        S = np.exp(Z - Z.max(1, keepdims=True))
        S /= S.sum(1, keepdims=True)
        cell_to_row = {}
        for r in range(len(Qc)):
            if np.max(np.abs(P[r] - Pd[r])) > 1e-8:
                raise Violation(f"{label}: at temperature -> 0 two points of the same grid cell, {Qc[r].tolist()} and {Qd[r].tolist()} "
                                f"(cut points {[a.tolist() for _, a in est.cut_points_list_]}), get different predictions")
            cell = tuple(int(np.sum(arr < Qc[r, fi])) for (fi, arr) in est.cut_points_list_)
            rows = np.where(np.max(np.abs(S - P[r]), axis=1) <= 1e-8)[0]
            if len(rows) == 0:
                raise Violation(f"{label}: at temperature -> 0 the prediction {P[r].tolist()} for {Qc[r].tolist()} is not the "
                                f"softmax of any single leaf's scores")
            prev = cell_to_row.setdefault(cell, set(rows.tolist()))
            cell_to_row[cell] = prev & set(rows.tolist())
            if not cell_to_row[cell]:
                raise Violation(f"{label}: two points of grid cell {cell} are predicted from different leaves")
        # different cells must be served by different leaves (unless their scores coincide)
        cells = list(cell_to_row)
        for a in range(len(cells)):
            for b in range(a + 1, len(cells)):
                ra, rb = cell_to_row[cells[a]], cell_to_row[cells[b]]
                if len(ra) == 1 and ra == rb and len(np.unique(S.round(12), axis=0)) == len(S):
                    raise Violation(f"{label}: grid cells {cells[a]} and {cells[b]} are served by the same leaf {ra}")
        est.temperature = case["temperature"]
    unsorted = any(np.any(np.diff(arr) < 0) for _, arr in est.cut_points_list_)
    return {"nontrivial": bool(len(used) >= 2 or n_cuts >= 2), "classes": [f"used={len(used)}", f"cuts={n_cuts}", "unsorted" if unsorted else "sorted"]}


@st.composite
def active_case(draw):
    c = draw(model_case())
    c["override_cuts"] = True
    used = c["d"] if c["mask"] is None else sum(c["mask"])
    ranges = draw(st.lists(st.tuples(st.integers(-20, 20), st.integers(0, 12), st.sampled_from(["free", "touch_lo", "touch_hi", "point"])),
                           min_size=c["d"], max_size=c["d"]))
    c["ranges"] = [list(r) for r in ranges]
    c["m"] = draw(st.integers(1, 6))
    # the query array keeps the caller's dtype: narrow integer types with ranges wider than their positive maximum included
    c["qtype"] = draw(st.sampled_from(["float64", "float64", "float32", "int64", "int8", "int16", "int32"]))
    return c


def oracle_active(case):
    label = label_of(case)
    est, X, used = fit_model(case)
    rs = np.random.RandomState(case["xseed"] + 2)
    d = case["d"]
    Q = np.zeros((case["m"], d))
    for f in range(d):
        lo, width, kind = case["ranges"][f]
        lo = lo * 0.5 * case["cut_scale"]
        hi = lo + width * 0.5 * case["cut_scale"]
        vals = rs.uniform(lo, hi, size=case["m"])
        if kind == "point" or case["m"] == 1:
            vals[:] = lo
        else:
            vals[0], vals[-1] = lo, hi
        Q[:, f] = vals
    qtype = case.get("qtype", "float64")
    if qtype != "float64":
        f = {"float32": 1.0, "int64": 2.0, "int8": 36.0, "int16": 9000.0, "int32": 6.0e8}[qtype] / (case["cut_scale"] if qtype != "float32" else 1.0)
        for _, arr in est.cut_points_list_:
            arr[:] = arr * f
        Q = Q * f
        if qtype != "float32":
            info_ = np.iinfo(qtype)
            Q = np.clip(np.round(Q), info_.min, info_.max)
        Q = Q.astype(qtype)
    Qf = np.asarray(Q, dtype=np.float64)
    # the question is put to the fitted model: hyper-parameters changed after fit (no refit), or the caller's mask array
    # rewritten in place, play no part; and asking changes nothing
    cuts_before = [(fi, np.array(arr, copy=True)) for fi, arr in est.cut_points_list_]
    P_before = est.predict_proba(X)
    pred_before = est.predict(X)
    tamper = case["xseed"] % 4
    if tamper == 1 and case["mask"] is not None:
        est.set_params(feature_mask=np.roll(np.asarray(case["mask"], dtype=bool), 1))
    elif tamper == 2 and case["mask"] is not None and isinstance(est.feature_mask, np.ndarray):
        est.feature_mask[...] = ~est.feature_mask
    elif tamper == 3:
        est.set_params(n_clusters=est.n_clusters + 1, temperature=est.temperature * 2)
    if tamper in (1, 2) and case["mask"] is not None:
        # the fitted model keeps the features it was fitted on: a mask changed afterwards (no refit) plays no part in predictions
        P_now = est.predict_proba(X)
        if not np.array_equal(P_now, P_before) or not np.array_equal(est.predict(X), pred_before):
            raise Violation(f"{label}: after {'set_params(feature_mask=other mask)' if tamper == 1 else 'rewriting the mask array in place'} "
                            f"and without any refit, the model predicts the training data differently "
                            f"(max change {float(np.max(np.abs(P_now - P_before))):.3g})")
    got = est.find_active_points(Q)
    if tamper == 0:
        got2 = est.find_active_points(Q)
        if list(got2) != list(got):
            raise Violation(f"{label}: two identical calls of find_active_points return {list(got)} then {list(got2)}")
        if any(fi != fj or not np.array_equal(a, b) for (fi, a), (fj, b) in zip(cuts_before, est.cut_points_list_)):
            raise Violation(f"{label}: find_active_points changed the fitted cut points from "
                            f"{[(fi, a.tolist()) for fi, a in cuts_before]} to {[(fi, a.tolist()) for fi, a in est.cut_points_list_]}")
        if not np.array_equal(est.predict_proba(X), P_before) or not np.array_equal(est.predict(X), pred_before):
            raise Violation(f"{label}: after find_active_points the model predicts the training data differently "
                            f"(max change {float(np.max(np.abs(est.predict_proba(X) - P_before))):.3g})")
    want = []
    between = False
    for fi, arr in cuts_before:
        mn, mx = Qf[:, fi].min(), Qf[:, fi].max()
        if np.any((arr > mn) & (arr < mx)):
            want.append(fi)
        elif len(arr) >= 2 and arr.min() < mn and mx < arr.max():
            between = True
        elif np.any(arr == mn) or np.any(arr == mx):
            between = True
    if sorted(int(g) for g in got) != want:
        raise Violation(f"{label}: find_active_points returned {list(got)} for data ranges "
                        f"{[(Qf[:, f].min(), Qf[:, f].max()) for f in range(d)]} ({qtype} array) and cut points "
                        f"{[(fi, a.tolist()) for fi, a in cuts_before]}; features with a cut strictly inside their "
                        f"range: {want}" + ("" if tamper in (0,) else f" [after fit: {['', 'set_params(feature_mask=other)', 'mask array rewritten in place', 'set_params(n_clusters, temperature)'][tamper]}]"))
    return {"nontrivial": bool(between), "classes": [f"cuts={case['n_cuts']}", f"active={len(want)}", f"tamper={tamper}", "q:" + qtype]}


def subs():
    return [Sub("model", model_case(), oracle_model, 500, 15000, "masks, leaf counts, memberships, zero-temperature cells"),
            Sub("active_points", active_case(), oracle_active, 800, 20000, "find_active_points vs its definition")]

"""C04 - fit succeeds on every valid configuration and yields a coherent model."""
import warnings

import numpy as np
from hypothesis import strategies as st
from sklearn.neural_network._stochastic_optimizers import AdamOptimizer, SGDOptimizer

from .. import estimators as E
from .. import gens
from ..harness import Sub, Violation
from ..refs import gemini_ref as R
from ..refs import kauri_ref

THOROUGH_SCALE = 3  # thorough budgets below are multiplied by this (about ten minutes on 16 processes)

TERMINATION_IS_PROPERTY = True  # "fit ... terminates", "path() always terminates": the watchdog of the harness reports here

RULE = ("all 18 estimators; hyper-parameters drawn inside each estimator's own accepted domain (registry names / "
        "GEMINI instances / None, solvers, batch sizes 1..n+2 and None, OvA/OvO, every named kernel / metric incl. "
        "callables and precomputed matrices passed as y, parameter dicts, group structures, n_cuts, temperature, masks, "
        "Kauri limits with 2*min_samples_leaf <= min_samples_split); finite X as float64 / float32 / int64 with "
        "n >= n_clusters. Non-trivial: n>=2 and at least two hyper-parameters away from their defaults.")
ASSUMPTIONS = ["score compared with the literal definitions on predict_proba clipped to [1e-12,1-1e-12] (the library's "
               "documented epsilon), Wasserstein LP for n<=8; data preconditions of scikit-learn's metrics are respected "
               "(non-negative data for chi2 kernels, 2 columns in radians for haversine)"]


def cast(X, dtype):
    if dtype == "float32":
        return X.astype(np.float32)
    if dtype == "int64":
        return np.round(X * 2).astype(np.int64)
    if dtype in ("int8", "int16"):
        # quantised features filling the type's range: differences between two values do not fit the type
        info = np.iinfo(dtype)
        lim = float(np.max(np.abs(X))) or 1.0
        return np.clip(np.round(X / lim * info.max), info.min, info.max).astype(dtype)
    return X


@st.composite
def grad_case(draw, classes=None):
    s = draw(E.est_spec(classes=classes, n_max=10, iter_max=3, k_max=4, xkinds=("normal", "grid", "scaled", "huge")))
    # un-centred data scaled by 1000 is legal, but gradient descent with a fixed step legitimately overflows when the
    # features it sees grow like |x|^2 or |x|^6 (KernelRIM trains on kernel rows; polynomial kernels): not generated
    names = [a["name"] for a in (s.get("aff"), s.get("base_kernel"), (s.get("gemini") or {}).get("gs", {}).get("a")) if a]
    if s["x"]["xkind"] in ("huge", "scaled") and (s["cls"] == "KernelRIM" or any(nm in ("poly", "polynomial") for nm in names)):
        s["x"]["xkind"] = "normal"
    return {"spec": s, "dtype": draw(st.sampled_from(["float64", "float64", "float32", "int64", "float64", "int8", "int16"]))}


def call(label, what, f, *a, **k):
    try:
        with warnings.catch_warnings():
            warnings.simplefilter("ignore")
            with np.errstate(all="ignore"):
                return f(*a, **k)
    except Exception as e:
        raise Violation(f"{label}: {what} raised {type(e).__name__}: {e}")


def oracle_grad(case):
    s = case["spec"]
    label = E.label(s) + f", X dtype {case['dtype']}"
    X64 = E.build_data(s)
    dtype = case["dtype"]
    names_ = [a["name"] for a in (s.get("aff"), s.get("base_kernel"), (s.get("gemini") or {}).get("gs", {}).get("a")) if a]
    if dtype in ("int8", "int16") and (s["cls"] == "KernelRIM" or any(nm in ("poly", "polynomial") for nm in names_)):
        # quantised data filling the integer range are 'huge' data: fixed-step descent on features growing like |x|^2..|x|^6
        # overflows legitimately (same exclusion as for the 'huge' and 'scaled' kinds)
        dtype = "float64"
    X = cast(X64, dtype)
    Xf = np.asarray(X, dtype=np.float64)
    n, K = s["n"], s["n_clusters"]
    est, y = E.build(s, Xf)
    call(label, "fit", est.fit, X, y)
    labels = getattr(est, "labels_", None)
    if labels is None or np.shape(labels) != (n,) or not np.issubdtype(np.asarray(labels).dtype, np.integer):
        raise Violation(f"{label}: labels_ is {labels!r}, expected {n} integer labels")
    if labels.min() < 0 or labels.max() >= K:
        raise Violation(f"{label}: labels_ outside [0,{K}): {labels.tolist()}")
    P = call(label, "predict_proba", est.predict_proba, X)
    P = np.asarray(P)
    if P.shape != (n, K):
        raise Violation(f"{label}: predict_proba has shape {P.shape}, expected {(n, K)}")
    if not np.all(np.isfinite(P)) or P.min() < 0 or np.max(np.abs(P.sum(1) - 1)) > 1e-10:
        raise Violation(f"{label}: predict_proba rows are not probability vectors: {P.tolist()}")
    pred = call(label, "predict", est.predict, X)
    if not np.array_equal(pred, P.argmax(1)):
        raise Violation(f"{label}: predict {np.asarray(pred).tolist()} is not the arg-max of predict_proba {P.argmax(1).tolist()}")
    if not np.array_equal(pred, labels):
        raise Violation(f"{label}: predict on the training data {np.asarray(pred).tolist()} != labels_ {labels.tolist()}")
    # (an unused second argument - class labels, as in scikit-learn pipelines - is ignored by fit as well)
    fp = call(label, "fit_predict", E.build(s, Xf)[0].fit_predict, X,
              y if y is not None or s["random_state"] % 2 else np.arange(n) % 2)
    if not np.array_equal(fp, labels):
        raise Violation(f"{label}: fit_predict {np.asarray(fp).tolist()} != labels_ of an identical fit {labels.tolist()}")
    sc = call(label, "score", est.score, X, y) if y is not None else call(label, "score", est.score, X)
    if y is None:
        # without a 'precomputed' affinity the second argument is documented as ignored: labels, or a square matrix left
        # over from an earlier precomputed configuration, change nothing
        rs_ = np.random.RandomState(s["random_state"] + 3)
        for junk in (rs_.rand(n, n), (lambda M_: M_ @ M_.T)(rs_.randn(n, 2)), rs_.randint(0, 2, size=n)):
            sc_j = call(label, "score with an ignored second argument", est.score, X, junk)
            if not (sc_j == sc or abs(sc_j - sc) <= 1e-12 * max(1.0, abs(sc))):
                raise Violation(f"{label}: score(X, y) = {sc_j!r} with an argument y of shape {np.shape(junk)} that the "
                                f"configuration does not use, score(X) = {sc!r}")
    base, ovo, aff = E.describe(s)
    # the named function evaluated on the data as given (float32 stays float32); a user-supplied matrix is the affinity
    A = np.asarray(y) if y is not None else aff(np.asarray(X))
    if A is not None:
        A = np.ascontiguousarray(A, dtype=np.float64)
    Pc = np.clip(P, 1e-12, 1 - 1e-12)
    if not isinstance(sc, float):
        raise Violation(f"{label}: score returned {type(sc).__name__}, expected a float")
    if base != "wasserstein" or n <= 8:
        ref = R.gemini(base, ovo, Pc, A)
        tol = R.score_tol(base, A, ref)
        if dtype == "float32":
            # score() evaluates the affinity in the precision of the data it is given (fit converts to float64, score
            # does not): single-precision rounding, amplified by the square root for MMD
            S = R.natural_scale(base, A)
            tol = max(tol, (2e-3 if base == "mmd" else 1e-5) * max(S, abs(ref)))
        if not np.isfinite(sc) or abs(sc - ref) > tol:
            raise Violation(f"{label}: score {sc!r} is not the {base} {'OvO' if ovo else 'OvA'} GEMINI of predict_proba "
                            f"on the given data ({ref!r})")
    # score on other data than the training data: a row subset (with the matching sub-block of a precomputed affinity)
    if s["cls"] not in E.CATEGORICAL and n >= 3:
        rs = np.random.RandomState(s["random_state"] + 11)
        idx = np.sort(rs.choice(n, size=rs.randint(2, n), replace=False))
        Xs = np.ascontiguousarray(np.asarray(X)[idx])
        ys = None if y is None else np.ascontiguousarray(np.asarray(y)[idx][:, idx])
        sc2 = call(label, "score on a row subset", est.score, Xs, ys) if ys is not None else call(label, "score on a row subset", est.score, Xs)
        P2 = np.clip(np.asarray(call(label, "predict_proba on a row subset", est.predict_proba, Xs)), 1e-12, 1 - 1e-12)
        A2 = ys if ys is not None else aff(Xs)
        if A2 is not None:
            A2 = np.ascontiguousarray(A2, dtype=np.float64)
        if base != "wasserstein" or len(idx) <= 8:
            ref2 = R.gemini(base, ovo, P2, A2)
            tol2 = R.score_tol(base, A2, ref2)
            if dtype == "float32":
                tol2 = max(tol2, (2e-3 if base == "mmd" else 1e-5) * max(R.natural_scale(base, A2), abs(ref2)))
            if not np.isfinite(sc2) or abs(sc2 - ref2) > tol2:
                raise Violation(f"{label}: score on rows {idx.tolist()} is {sc2!r}, the {base} GEMINI of predict_proba on those rows is {ref2!r}")
    if getattr(est, "n_iter_", None) != s["max_iter"]:
        raise Violation(f"{label}: n_iter_ = {getattr(est, 'n_iter_', None)!r}, expected max_iter = {s['max_iter']}")
    want = SGDOptimizer if s["solver"] == "sgd" else AdamOptimizer
    if type(getattr(est, "optimiser_", None)) is not want:
        raise Violation(f"{label}: optimiser_ is {type(getattr(est, 'optimiser_', None)).__name__}, solver is {s['solver']}")
    # what predict_proba / predict return belongs to the caller: writing into it (re-ordering columns, thresholding in place)
    # must not change the model
    P_keep, pred_keep = P.copy(), np.array(pred, copy=True)
    for arr in (P, pred):
        if isinstance(arr, np.ndarray) and arr.flags.writeable:
            arr[...] = arr[::-1].copy() if len(arr) > 1 else 0
            arr[...] = 0
    P_after = np.asarray(call(label, "predict_proba (second call)", est.predict_proba, X))
    pred_after = np.asarray(call(label, "predict (second call)", est.predict, X))
    if not np.array_equal(P_after, P_keep) or not np.array_equal(pred_after, pred_keep) or not np.array_equal(est.labels_, pred_keep):
        raise Violation(f"{label}: after the caller wrote into the arrays returned by predict_proba / predict, the model predicts "
                        f"differently (the returned arrays are shared with the model's state)")
    # the same estimator is then fitted on fewer columns of the same data (after a feature selection, say): every
    # configuration that is valid for the narrower data must fit there too
    d_all = np.shape(X)[1]
    grp = s.get("groups")
    need = (max([i for g_ in grp for i in g_] + [-1]) + 1) if grp else 1
    aff_ = s.get("aff")
    if y is None and d_all >= 2 and need < d_all and s.get("feature_mask") is None and not (aff_ and aff_.get("name") == "haversine"):
        d2 = max(need, 1, d_all - 1 - s["random_state"] % 2)
        d2 = min(d2, d_all - 1)
        Xn = np.ascontiguousarray(np.asarray(X)[:, :d2])
        call(label, f"fit on the first {d2} of {d_all} columns after the fit on all of them", est.fit, Xn)
        if np.shape(est.labels_) != (n,):
            raise Violation(f"{label}: refitted on {d2} columns, labels_ has shape {np.shape(est.labels_)}")
    nondefault = sum(1 for k in s if k not in ("cls", "n", "d", "x", "random_state", "max_iter", "learning_rate"))
    return {"nontrivial": bool(n >= 2 and nondefault >= 2),
            "classes": [s["cls"], "dtype:" + dtype, f"K={K}"], "note": {"labels": labels.tolist()[:12], "score": sc}}


@st.composite
def kauri_case(draw):
    return {"spec": draw(E.kauri_spec()), "dtype": draw(st.sampled_from(["float64", "float32", "int64", "int8", "int16"]))}


def oracle_kauri(case):
    s = case["spec"]
    label = E.label(s)
    X64 = E.build_kauri_data(s)
    X = cast(X64, case["dtype"]) if s["kernel"]["form"] == "named" else X64
    Xf = np.asarray(X, dtype=np.float64)
    est, y = E.build_kauri(s, Xf)
    call(label, "fit", est.fit, X, y)
    labels = getattr(est, "labels_", None)
    n = s["n"]
    if labels is None or np.shape(labels) != (n,) or not np.issubdtype(np.asarray(labels).dtype, np.integer):
        raise Violation(f"{label}: labels_ is {labels!r}")
    if labels.min() < 0 or labels.max() >= s["max_clusters"]:
        raise Violation(f"{label}: labels_ outside [0,{s['max_clusters']}): {labels.tolist()}")
    if not hasattr(est, "tree_"):
        raise Violation(f"{label}: no tree_ after fit")
    pred = call(label, "predict", est.predict, X)
    if not np.array_equal(pred, labels):
        raise Violation(f"{label}: predict on the training data {np.asarray(pred).tolist()} != labels_ {labels.tolist()}")
    sc = call(label, "score", est.score, X, y)
    Kmat = E.kauri_ref_kernel(s, Xf) if s["kernel"]["form"] != "named" else \
        np.asarray(__import__("sklearn.metrics").metrics.pairwise_kernels(Xf, metric=s["kernel"]["name"]))
    ref = kauri_ref.J(labels, Kmat)
    rel = 1e-5 if case["dtype"] == "float32" else 1e-8
    if abs(sc - ref) > rel * max(1.0, abs(ref), float(np.max(np.abs(Kmat)))):
        raise Violation(f"{label}: score {sc!r} != kernel-KMeans objective of the labels {ref!r}")
    fp = call(label, "fit_predict", E.build_kauri(s, Xf)[0].fit_predict, X, y)
    if not np.array_equal(fp, labels):
        raise Violation(f"{label}: fit_predict differs from labels_ of an identical fit")
    # what predict returns belongs to the caller
    keep = np.array(pred, copy=True)
    if isinstance(pred, np.ndarray) and pred.flags.writeable:
        pred[...] = -5
    again = call(label, "predict (second call)", est.predict, X)
    if not np.array_equal(again, keep) or not np.array_equal(est.labels_, keep):
        raise Violation(f"{label}: after the caller wrote into the array returned by predict, the model predicts differently")
    return {"nontrivial": bool(len(np.unique(labels)) >= 2), "classes": ["Kauri:" + s["kernel"]["form"], "dtype:" + case["dtype"]],
            "note": {"labels": labels.tolist()[:12], "score": sc}}


@st.composite
def large_case(draw):
    cls = draw(st.sampled_from(["LinearModel", "LinearMMD", "MLPModel", "SparseLinearModel", "CategoricalModel", "Douglas", "RIM", "KernelRIM"]))
    s = draw(E.est_spec(classes=[cls], n_max=12, d_max=3, iter_max=2, k_max=4, hidden_max=4, n_min=4, cuts_max=2,
                        gem_names=["mi", "kl_ovo", "tv_ovo", "hellinger_ova", "chi2_ovo", "mmd_ova", "mmd_ovo"], allow_instance=False,
                        kernel_forms=("named", "precomputed"), xkinds=("normal",)))
    s["n"] = draw(st.integers(1030, 2300))
    if "batch_size" in s:
        s["batch_size"] = draw(st.sampled_from([None, 1024, 1025, 500]))
    return {"spec": s, "dtype": "float64"}


@st.composite
def narrow_int_case(draw):
    from .c10 import narrow_int_case as c10_case
    c = draw(c10_case())
    return {"spec": c["spec"], "dtype": "float64"}


def subs():
    return [Sub("fit_large_n", large_case(), oracle_grad, 16, 300, "coherence of fits on 1030-2300 samples"),
            Sub("fit_narrow_int_batch_size", narrow_int_case(), oracle_grad, 16, 400, "batch sizes as np.int8/np.uint8/np.int16 on 70-300 samples")] + _subs()


def _subs():
    fam = {"linear": ["LinearModel", "LinearMMD", "LinearWasserstein", "RIM", "KernelRIM"],
           "mlp": ["MLPModel", "MLPMMD", "MLPWasserstein"], "sparse": E.SPARSE, "categorical": E.CATEGORICAL,
           "douglas": ["Douglas"]}
    out = [Sub("fit_" + k, grad_case(classes=v), oracle_grad, 1000, 20000, f"{', '.join(v)}") for k, v in fam.items()]
    out.append(Sub("fit_kauri", kauri_case(), oracle_kauri, 1500, 30000, "Kauri"))
    return out

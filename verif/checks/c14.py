"""C14 - must-link / cannot-link constraints: exact validation, right samples, right sign."""
import warnings

import numpy as np
from hypothesis import strategies as st

from .. import estimators as E
from .. import gens
from ..harness import Sub, Violation
from ..refs import mlcl_ref
from ..spy import BatchRecorder
from .c10 import bias_batch, unique_data

QUICK_SCALE = 4  # quick budgets below are multiplied by this (kept at about half a minute on 8 processes)
THOROUGH_SCALE = 6  # thorough budgets below are multiplied by this (about ten minutes on 16 processes)

RULE = ("(a) pair sets over non-contiguous, unordered index universes with chains, cycles, duplicates and occasional "
        "self pairs, given as lists or arrays; acceptance must coincide with the union-find reference; malformed inputs "
        "(scalar, flat list, single column) must raise ValueError/TypeError. (b) real fits of decorated models with "
        "recording wrappers installed under the decoration: the gradient reaching the model must be the GEMINI gradient "
        "plus exactly +/-factor*(p_i-p_j) on the rows of listed pairs whose two samples share the batch. Non-trivial: "
        "(a) both lists non-empty with a must-link component of >=3 elements; (b) a pair active in a batch where its "
        "position differs from its sample index.")
ASSUMPTIONS = ["duplicated pairs count as many times as they are listed (the documentation does not say otherwise and the "
               "energy reference sums over the list)"]


def model():
    from gemclus.linear import LinearModel
    return LinearModel()


CONTAINERS = ["list", "int64", "tuple", "int32", "fortran", "view", "uint8", "list_of_arrays"]


def contain(pairs, kind):
    """the same index pairs in another legal container (None when there is no pair)"""
    if not pairs:
        return None
    if kind == "list":
        return [list(p) for p in pairs]
    if kind == "tuple":
        return tuple(tuple(p) for p in pairs)
    if kind == "list_of_arrays":
        return [np.array(p) for p in pairs]
    a = np.array(pairs, dtype=np.int64).reshape(-1, 2)
    if kind == "int32":
        return a.astype(np.int32)
    if kind == "uint8":
        return a.astype(np.uint8) if a.max() < 256 else a
    if kind == "fortran":
        return np.asfortranarray(a)
    if kind == "view":
        big = np.full((2 * len(a), 5), -7, dtype=np.int64)
        big[::2, 1::2] = a
        return big[::2, 1::2]
    return a


# ------------------------------------------------------------------------------------------------ validation
@st.composite
def valid_case(draw):
    universe = draw(st.lists(st.integers(0, 150), min_size=2, max_size=8, unique=True))
    pair = st.tuples(st.sampled_from(universe), st.sampled_from(universe))
    allow_self = draw(st.integers(0, 9)) == 0
    if not allow_self:
        pair = pair.filter(lambda p: p[0] != p[1])
    ml = draw(st.lists(pair, min_size=0, max_size=7))
    cl = draw(st.lists(pair, min_size=0, max_size=5))
    return {"ml": [list(p) for p in ml], "cl": [list(p) for p in cl], "as_array": draw(st.booleans()),
            "factor": draw(st.sampled_from([0.1, 1.0, 2.5])),
            "containers": [draw(st.sampled_from(CONTAINERS)), draw(st.sampled_from(CONTAINERS))]}


def oracle_valid(case):
    from gemclus import add_mlcl_constraint
    ml, cl = case["ml"], case["cl"]
    want = mlcl_ref.consistent(ml, cl)
    if "containers" in case:
        a_ml, a_cl = contain(ml, case["containers"][0]), contain(cl, case["containers"][1])
        if not ml and case["as_array"]:
            a_ml = [] if case["containers"][0] == "list" else np.zeros((0, 2), dtype=int)  # "no pair" given as an empty container
        if not cl and not case["as_array"]:
            a_cl = [] if case["containers"][1] == "list" else np.zeros((0, 2), dtype=int)
    else:
        a_ml = (np.array(ml, dtype=int).reshape(-1, 2) if case["as_array"] else ml) if ml else None
        a_cl = (np.array(cl, dtype=int).reshape(-1, 2) if case["as_array"] else cl) if cl else None
    try:
        with warnings.catch_warnings():
            warnings.simplefilter("ignore")
            m = add_mlcl_constraint(model(), a_ml, a_cl, case["factor"])
        got = True
    except (ValueError, TypeError) as e:
        got = False
        err = e
    except Exception as e:
        raise Violation(f"add_mlcl_constraint(must_link={ml}, cannot_link={cl}) raised {type(e).__name__}: {e} "
                        f"(neither acceptance nor a ValueError/TypeError)")
    if got and not want:
        raise Violation(f"add_mlcl_constraint accepted a contradictory / self-referencing set: must_link={ml}, cannot_link={cl}")
    if not got and want:
        raise Violation(f"add_mlcl_constraint rejected a consistent set: must_link={ml}, cannot_link={cl} ({err})")
    comp = mlcl_ref.components(ml)
    sizes = {}
    for v in comp.values():
        sizes[v] = sizes.get(v, 0) + 1
    big = max(sizes.values()) if sizes else 0
    return {"nontrivial": bool(ml and cl and big >= 3), "classes": ["accepted" if want else "rejected"] + ["pairs:" + k for k in case.get("containers", [])]}


@st.composite
def malformed_case(draw):
    kind = draw(st.sampled_from(["scalar", "flat", "single_column", "flat_array", "nested_scalar"]))
    which = draw(st.sampled_from(["must_link", "cannot_link"]))
    vals = draw(st.lists(st.integers(0, 30), min_size=2, max_size=5))
    return {"kind": kind, "which": which, "vals": vals, "other_valid": draw(st.booleans())}


def oracle_malformed(case):
    from gemclus import add_mlcl_constraint
    v = case["vals"]
    bad = {"scalar": v[0], "flat": list(v), "single_column": [[x] for x in v], "flat_array": np.array(v),
           "nested_scalar": np.array(v[0])}[case["kind"]]
    other = [[100, 101]] if case["other_valid"] else None
    kw = {case["which"]: bad, ("cannot_link" if case["which"] == "must_link" else "must_link"): other}
    try:
        with warnings.catch_warnings():
            warnings.simplefilter("ignore")
            add_mlcl_constraint(model(), **kw)
    except (ValueError, TypeError):
        return {"nontrivial": True, "classes": [case["kind"]]}
    except Exception as e:
        raise Violation(f"add_mlcl_constraint({case['which']}={bad!r}) raised {type(e).__name__}: {e}, expected a "
                        f"ValueError/TypeError")
    raise Violation(f"add_mlcl_constraint accepted {case['which']}={bad!r}, which is not a two-dimensional list of index pairs")


# ------------------------------------------------------------------------------------------------ training
@st.composite
def train_case(draw, path=False):
    if path:
        s = draw(E.est_spec(classes=E.SPARSE, n_max=14, d_max=4, iter_max=2, k_max=3, hidden_max=3, n_min=4, d_min=2))
        s["alpha"] = draw(st.sampled_from([0.5, 2.0, 0.1]))
        if draw(st.booleans()):
            s["verbose"] = True
    else:
        s = draw(E.est_spec(n_max=14, d_max=3, iter_max=3, k_max=3, hidden_max=3, n_min=3))
    s["x"]["xkind"] = "normal"
    bias_batch(draw, s)
    n = s["n"]
    groups = draw(st.lists(st.integers(0, 2), min_size=n, max_size=n))
    pairs = draw(st.lists(st.tuples(st.integers(0, n - 1), st.integers(0, n - 1)).filter(lambda p: p[0] != p[1]),
                          min_size=1, max_size=8))
    ml = [[i, j] for i, j in pairs if groups[i] == groups[j]]
    cl = [[i, j] for i, j in pairs if groups[i] != groups[j]]
    out = {"spec": s, "ml": ml, "cl": cl, "factor": draw(st.sampled_from([0.5, 1.0, 3.0])),
           "containers": [draw(st.sampled_from(CONTAINERS)), draw(st.sampled_from(CONTAINERS))]}
    if draw(st.integers(0, 3)) == 0:
        # the helper applied a second time to the same model, with its own pairs and its own weight
        pairs2 = draw(st.lists(st.tuples(st.integers(0, n - 1), st.integers(0, n - 1)).filter(lambda p: p[0] != p[1]),
                               min_size=1, max_size=4))
        out["again"] = {"ml": [[i, j] for i, j in pairs2 if groups[i] == groups[j]],
                        "cl": [[i, j] for i, j in pairs2 if groups[i] != groups[j]],
                        "factor": draw(st.sampled_from([4.0, 0.25, 1.0]))}
    if not path and draw(st.integers(0, 3)) == 0:
        # the decorated model is first fitted on the first m samples only (pairs naming later samples stay silent), then on all
        out["prefit_rows"] = draw(st.integers(max(1, s["n_clusters"]), n))
    if path:
        out["path"] = {"alpha_multiplier": draw(st.sampled_from([3.0, 1.5])), "min_features": draw(st.integers(1, 2)),
                       "max_patience": draw(st.integers(1, 2))}
    return out


def oracle_train(case):
    from gemclus import add_mlcl_constraint
    s = case["spec"]
    ml, cl, factor = case["ml"], case["cl"], case["factor"]
    label = E.label(s) + f" with must_link={ml}, cannot_link={cl}, factor={factor}"
    decorations = [{"ml": ml, "cl": cl, "factor": factor}]
    if case.get("again"):
        decorations.append(case["again"])
        label += f", decorated again with {case['again']}"
    if case.get("prefit_rows"):
        label += f", fitted first on the first {case['prefit_rows']} samples"
    X = unique_data(s)
    est, y = E.build(s, X)
    rec = BatchRecorder(est, keep=False)
    seen = {"steps": 0, "active": 0, "displaced": 0}
    inner = est._compute_grads
    gem = est.get_gemini()

    def under(Xb, y_pred, gradient):
        seen["steps"] += 1
        idx = [int(i) for i in np.asarray(rec.last[0])]
        ab = rec.last[1]
        _, base = gem(y_pred, ab, return_grad=True)
        want = np.array(base, dtype=float, copy=True)
        touched = set()
        pos = {ix: r for r, ix in enumerate(idx)}
        for deco in decorations:
            for sign, pairs_ in ((1.0, deco["cl"]), (-1.0, deco["ml"])):
                for (i, j) in pairs_:
                    if i in pos and j in pos:
                        want[pos[i]] += sign * deco["factor"] * (y_pred[pos[i]] - y_pred[pos[j]])
                        want[pos[j]] += sign * deco["factor"] * (y_pred[pos[j]] - y_pred[pos[i]])
                        touched |= {pos[i], pos[j]}
                        seen["active"] += 1
                        seen["displaced"] += int(pos[i] != i or pos[j] != j)
        got = np.asarray(gradient)
        if got.shape != want.shape:
            raise Violation(f"{label}: gradient reaching the model has shape {got.shape}, predictions {want.shape}")
        for r in range(len(idx)):
            if r not in touched:
                if not np.array_equal(got[r], np.asarray(base)[r]):
                    raise Violation(f"{label}: batch {idx}: row {r} (sample {idx[r]}) belongs to no active pair but its "
                                    f"gradient was changed from {np.asarray(base)[r].tolist()} to {got[r].tolist()}")
            elif not np.allclose(got[r], want[r], rtol=1e-10, atol=1e-12 * max(1.0, np.max(np.abs(want)))):
                raise Violation(f"{label}: batch {idx}: row {r} (sample {idx[r]}) received {got[r].tolist()}, expected GEMINI "
                                f"gradient plus constraint terms {want[r].tolist()}")
        if s["cls"] != "KernelRIM" and not np.array_equal(np.asarray(Xb), X[idx]):
            raise Violation(f"{label}: batch rows are not the rows of samples {idx}")
        return inner(Xb, y_pred, gradient)

    est._compute_grads = under
    try:
        kinds = case.get("containers", ["list", "list"])
        add_mlcl_constraint(est, contain(ml, kinds[0]), contain(cl, kinds[1]), factor)
        if case.get("again"):
            add_mlcl_constraint(est, contain(case["again"]["ml"], kinds[1]), contain(case["again"]["cl"], kinds[0]), case["again"]["factor"])
    except ValueError as e:
        raise Violation(f"{label}: consistent constraints were rejected: {e}")
    with warnings.catch_warnings():
        warnings.simplefilter("ignore")
        with np.errstate(all="ignore"):
            if case.get("prefit_rows"):
                m = case["prefit_rows"]
                try:
                    est.fit(X[:m], None if y is None else np.ascontiguousarray(np.asarray(y)[:m, :m]))
                except Violation:
                    raise
                except Exception:
                    pass
            try:
                if "path" in case:
                    est.path(X, y, **case["path"])
                else:
                    est.fit(X, y)
            except Violation:
                raise
            except Exception as e:
                return {"nontrivial": False, "classes": [s["cls"] + ":fit_raised"], "counts": {"fit_raised": 1},
                        "note": f"{type(e).__name__}: {e}"}
    return {"nontrivial": bool(seen["displaced"] >= 1), "classes": [s["cls"]] + ["pairs:" + k for k in case.get("containers", [])],
            "counts": {"steps": seen["steps"], "active_pairs": seen["active"], "displaced_pairs": seen["displaced"]}}


def subs():
    return [
        Sub("validation", valid_case(), oracle_valid, 4000, 100000, "acceptance <=> union-find consistency"),
        Sub("malformed", malformed_case(), oracle_malformed, 300, 3000, "scalars, flat lists, single columns"),
        Sub("training", train_case(), oracle_train, 800, 15000, "gradient injection observed under the decoration"),
        Sub("training_path", train_case(path=True), oracle_train, 250, 5000, "same, through path() of decorated sparse models"),
    ]

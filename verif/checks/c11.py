"""C11 - kernel, metric and GEMINI choices are forwarded faithfully; precomputed = named."""
import warnings

import numpy as np
from hypothesis import strategies as st
from sklearn.metrics import pairwise_distances, pairwise_kernels

from .. import estimators as E
from .. import gens, objs
from ..harness import KNOWN, Sub, Violation, known
from ..refs import gemini_ref as R
from .c12 import diff_states, fitted_state

import gemclus.gemini as G  # noqa: E402

QUICK_SCALE = 3  # quick budgets below are multiplied by this (kept at about half a minute on 8 processes)
THOROUGH_SCALE = 6  # thorough budgets below are multiplied by this (about ten minutes on 16 processes)

RULE = ("metamorphic / differential runs with a common integer random_state: named kernel or metric with parameters == the "
        "same matrix passed as 'precomputed' == a callable returning it (exact equality of every fitted attribute and of "
        "the score; path histories to 1e-9); convenience estimator == generic estimator given the explicit GEMINI instance; "
        "RIM(reg=0) / SparseLinearMI == generic with 'mi'; None == 'mmd_ova'; name == instance; the objective returned by "
        "get_gemini() has the documented type / OvA-OvO flag and its affinity equals scikit-learn's function evaluated by "
        "the harness; 'precomputed' without a matrix raises; KernelRIM's kernel between new and training points; Kauri named "
        "== precomputed. Non-trivial: a non-default kernel/metric or at least one non-default parameter.")
ASSUMPTIONS = ["both sides of every equivalence run the same code on the same matrix with the same seed, so fitted attributes "
               "are compared exactly; path histories are compared to 1e-9 relative because the validation score recomputes "
               "named kernels block by block while a precomputed matrix is sliced"]

CONVENIENCE_MMD = {"LinearMMD": "LinearModel", "MLPMMD": "MLPModel", "SparseLinearMMD": "SparseLinearModel",
                   "SparseMLPMMD": "SparseMLPModel", "CategoricalMMD": "CategoricalModel"}
CONVENIENCE_WASS = {"LinearWasserstein": "LinearModel", "MLPWasserstein": "MLPModel", "CategoricalWasserstein": "CategoricalModel"}


def quiet(f, *a, **k):
    with warnings.catch_warnings():
        warnings.simplefilter("ignore")
        with np.errstate(all="ignore"):
            return f(*a, **k)


def compare_fits(label, ests, Xs_ys, names, with_score=True, tol=None):
    states, scores = [], []
    for est, (X, y) in zip(ests, Xs_ys):
        try:
            quiet(est.fit, X, y) if y is not None else quiet(est.fit, X)
        except Exception as e:
            raise Violation(f"{label}: fit of the '{names[len(states)]}' variant raised {type(e).__name__}: {e}")
        st_ = fitted_state(est)
        st_.pop("input_data_", None)
        states.append(st_)
        if with_score:
            scores.append(quiet(est.score, X, y) if y is not None else quiet(est.score, X))
    for i in range(1, len(states)):
        d = [k for k in diff_states(states[0], states[i]) if k in states[0] and k in states[i]]
        if d:
            raise Violation(f"{label}: the '{names[0]}' and '{names[i]}' variants give different fitted models (attributes {d})")
        if with_score and not (scores[0] == scores[i] or (np.isnan(scores[0]) and np.isnan(scores[i]))):
            raise Violation(f"{label}: the '{names[0]}' and '{names[i]}' variants give different scores {scores[0]!r} vs {scores[i]!r}")


# ------------------------------------------------------------------------------------------------ named == precomputed == callable
@st.composite
def equiv_case(draw):
    cls = draw(st.sampled_from(sorted(CONVENIENCE_MMD) + sorted(CONVENIENCE_WASS)))
    s = draw(E.est_spec(classes=[cls], n_max=10, d_max=3, iter_max=3, k_max=3, hidden_max=3, n_min=3,
                        kernel_forms=("named",), metric_forms=("named",)))
    return {"spec": s}


def oracle_equiv(case):
    s = case["spec"]
    label = E.label(s)
    X = E.build_data(s)
    a = s["aff"]
    key = "kernel" if a["fam"] == "kernel" else "metric"
    A = gens.ref_affinity(a, X)
    fn = (lambda Z: pairwise_kernels(Z, metric=a["name"], **a["params"])) if key == "kernel" else \
        (lambda Z: pairwise_distances(Z, metric=a["name"], **a["params"]))
    base_kw = E.build(s, X)[0].get_params(deep=False)
    cls = E.CLASSES[s["cls"]]
    named = cls(**base_kw)
    pre = cls(**dict(base_kw, **{key: "precomputed", key + "_params": None}))
    # parameters passed along with a callable are documented as ignored
    cal = cls(**dict(base_kw, **{key: fn, key + "_params": None if s["random_state"] % 2 else {"ignored_option": 1}}))
    dyn = bool(s.get("dynamic"))
    if s.get("batch_size") is not None and False:
        pass
    # ... whatever the object (and its parameter dictionary) was used for before: first a fit on other data with another
    # number of features, then the compared fit
    import copy
    warm = cls(**copy.deepcopy(base_kw))
    s0 = copy.deepcopy(s)
    s0["d"] = s0["x"]["d"] = s["d"] + 1 + s["random_state"] % 2
    s0["x"]["xseed"] = s["x"]["xseed"] + 1
    s0["n"] = s["n"] + s["random_state"] % 3
    if "groups" in s0:
        s0["groups"] = None
    try:
        quiet(warm.fit, E.build_data(s0))
    except Exception:
        warm = cls(**copy.deepcopy(base_kw))
    compare_fits(label, [named, pre, cal, warm], [(X, None), (X, A), (X, None), (X, None)],
                 ["named", "precomputed", "callable", "named, used before on data with another number of features"])
    # the user's matrix reaches the model through every entry point that takes it (fit_predict as well as fit)
    try:
        fp = quiet(cls(**dict(base_kw, **{key: "precomputed", key + "_params": None})).fit_predict, X, A)
    except Exception as e:
        raise Violation(f"{label}: fit_predict(X, matrix) of the 'precomputed' variant raised {type(e).__name__}: {e}")
    if not np.array_equal(np.asarray(fp), named.labels_):
        raise Violation(f"{label}: fit_predict(X, matrix) of the 'precomputed' variant gives other labels than fit of the named variant")
    Aw = np.asarray(warm.get_gemini().compute_affinity(X))
    if Aw.shape != A.shape or not np.allclose(Aw, A, rtol=1e-12, atol=1e-12 * max(1.0, float(np.max(np.abs(A))))):
        raise Violation(f"{label}: after fits on two data sets, the affinity of get_gemini() is not scikit-learn's {a['name']} "
                        f"with parameters {a['params']}")
    # the same through the instance route
    inst_cls = G.MMDGEMINI if key == "kernel" else G.WassersteinGEMINI
    g = named.get_gemini()
    if type(g) is not inst_cls or g.ovo is not s["ovo"]:
        raise Violation(f"{label}: get_gemini() returns {type(g).__name__}(ovo={getattr(g, 'ovo', None)}), the parameters "
                        f"describe {inst_cls.__name__}(ovo={s['ovo']})")
    Ag = np.asarray(g.compute_affinity(X))
    if Ag.shape != A.shape or not np.allclose(Ag, A, rtol=1e-12, atol=1e-12 * max(1.0, float(np.max(np.abs(A))))):
        raise Violation(f"{label}: the affinity of get_gemini() is not scikit-learn's {a['name']} with parameters {a['params']}")
    try:
        quiet(cls(**dict(base_kw, **{key: "precomputed", key + "_params": None})).fit, X)
    except (ValueError, TypeError):
        pass
    except Exception as e:
        raise Violation(f"{label}: 'precomputed' without a matrix raised {type(e).__name__}: {e} (not a ValueError/TypeError)")
    else:
        raise Violation(f"{label}: {key}='precomputed' without a matrix was accepted by fit")
    return {"nontrivial": bool(a["params"] or a["name"] not in ("linear", "euclidean")), "classes": [s["cls"], key + ":" + a["name"]]}


# ------------------------------------------------------------------------------------------------ convenience == generic + instance
@st.composite
def generic_case(draw):
    kind = draw(st.sampled_from(["mmd", "wass", "rim0", "sparse_mi", "none", "name_instance"]))
    if kind == "mmd":
        cls = draw(st.sampled_from(sorted(CONVENIENCE_MMD)))
    elif kind == "wass":
        cls = draw(st.sampled_from(sorted(CONVENIENCE_WASS)))
    elif kind == "rim0":
        cls = "RIM"
    elif kind == "sparse_mi":
        cls = "SparseLinearMI"
    else:
        cls = draw(st.sampled_from(E.GENERIC))
    s = draw(E.est_spec(classes=[cls], n_max=10, d_max=3, iter_max=3, k_max=3, hidden_max=3, n_min=3, allow_instance=False,
                        kernel_forms=("named", "callable"), metric_forms=("named", "callable"),
                        metric_names=["cityblock", "cosine", "euclidean", "l1", "l2", "manhattan"]))
    if kind == "rim0":
        s["reg"] = 0.0
    if kind == "none":
        s["gemini"] = {"kind": "none"}
    if kind == "name_instance":
        s["gemini"] = {"kind": "name", "name": draw(st.sampled_from(sorted(R.NAMES)))}
    return {"spec": s, "kind": kind}


def vandalise(g):
    """what a user may do with an objective object they were given"""
    if hasattr(g, "ovo"):
        g.ovo = not g.ovo
    g.epsilon = 0.3
    if hasattr(g, "kernel"):
        g.kernel, g.kernel_params = "rbf", {"gamma": 7.0}
    if hasattr(g, "metric"):
        g.metric, g.metric_params = "cosine", None


def oracle_generic(case):
    s, kind = case["spec"], case["kind"]
    label = E.label(s)
    X = E.build_data(s)
    est, y = E.build(s, X)
    kw = est.get_params(deep=False)
    if kind in ("mmd", "wass"):
        a = s["aff"]
        key = "kernel" if kind == "mmd" else "metric"
        fn = kw[key]
        inst = (G.MMDGEMINI if kind == "mmd" else G.WassersteinGEMINI)(ovo=s["ovo"], **{key: fn, key + "_params": kw[key + "_params"]})
        gcls = E.CLASSES[(CONVENIENCE_MMD if kind == "mmd" else CONVENIENCE_WASS)[s["cls"]]]
        gkw = {k: v for k, v in kw.items() if k not in ("kernel", "kernel_params", "metric", "metric_params", "ovo")}
        other = gcls(gemini=inst, **gkw)
        names = [s["cls"], f"{gcls.__name__}(gemini={type(inst).__name__} instance)"]
    elif kind == "rim0":
        from gemclus.linear import LinearModel
        other = LinearModel(gemini="mi", **{k: v for k, v in kw.items() if k != "reg"})
        names = ["RIM(reg=0)", "LinearModel(gemini='mi')"]
    elif kind == "sparse_mi":
        from gemclus.sparse import SparseLinearModel
        other = SparseLinearModel(gemini="mi", dynamic=False, **kw)
        names = ["SparseLinearMI", "SparseLinearModel(gemini='mi')"]
    elif kind == "none":
        other = E.CLASSES[s["cls"]](**dict(kw, gemini="mmd_ova"))
        names = ["gemini=None", "gemini='mmd_ova'"]
    else:
        base, ovo = R.NAMES[s["gemini"]["name"]]
        inst = {"mmd": lambda: G.MMDGEMINI(ovo=ovo), "wasserstein": lambda: G.WassersteinGEMINI(ovo=ovo),
                "kl": lambda: G.KLGEMINI(ovo=ovo), "tv": lambda: G.TVGEMINI(ovo=ovo), "hellinger": lambda: G.HellingerGEMINI(ovo=ovo),
                "chi2": lambda: G.ChiSquareGEMINI(ovo=ovo)}[base]()
        other = E.CLASSES[s["cls"]](**dict(kw, gemini=inst))
        names = [f"gemini='{s['gemini']['name']}'", f"gemini={type(inst).__name__}(ovo={ovo})"]
    if kind in ("none", "name_instance", "rim0", "sparse_mi"):
        # the objective handed out for a name belongs to whoever asked for it: a user who customises the object they got
        # (another kernel, another epsilon, one-vs-one) changes that object only
        for victim in (est, other if kind in ("none", "rim0", "sparse_mi") else est):
            vandalise(victim.get_gemini())
    compare_fits(label, [est, other], [(X, y), (X, y)], names)
    if kind in ("none", "name_instance"):
        want_base, want_ovo = ("mmd", False) if kind == "none" else R.NAMES[s["gemini"]["name"]]
        g_now = est.get_gemini()
        if getattr(g_now, "ovo", False) is not want_ovo or abs(getattr(g_now, "epsilon", 1e-12) - 1e-12) > 0 or \
                getattr(g_now, "kernel", "linear") != "linear" or getattr(g_now, "metric", "euclidean") != "euclidean":
            raise Violation(f"{label}: get_gemini() for {names[0]} now returns {type(g_now).__name__} with "
                            f"{ {k: v for k, v in vars(g_now).items()} } - not the documented objective of that name (an object "
                            f"handed out earlier was customised by its owner)")
    if s["cls"] in E.SPARSE and s.get("alpha", 0) > 0 and not s.get("dynamic"):
        pa = {"alpha_multiplier": 3.0, "min_features": 1, "max_patience": 1}
        e1, _ = E.build(s, X)
        r1 = quiet(e1.path, X, y, **pa)
        r2 = quiet(type(other)(**other.get_params(deep=False)).path, X, y, **pa)
        for nm, h1, h2 in zip(("best weights", "geminis", "penalties", "alphas", "n_features"), r1, r2):
            parts = zip(h1, h2) if nm == "best weights" else [(np.asarray(h1, dtype=float), np.asarray(h2, dtype=float))]
            for p1, p2 in parts:
                if np.shape(p1) != np.shape(p2) or not np.allclose(p1, p2, rtol=1e-9, atol=1e-12, equal_nan=True):
                    raise Violation(f"{label}: path histories of {names[0]} and {names[1]} differ in {nm}")
    return {"nontrivial": True, "classes": [kind + ":" + s["cls"]]}


# ------------------------------------------------------------------------------------------------ sparse paths: named == precomputed
@st.composite
def path_case(draw):
    cls = draw(st.sampled_from(["SparseLinearMMD", "SparseMLPMMD"]))
    s = draw(E.est_spec(classes=[cls], n_max=10, d_max=4, iter_max=2, k_max=3, hidden_max=3, n_min=4, d_min=2, kernel_forms=("named",)))
    s["alpha"] = draw(st.sampled_from([0.5, 2.0]))
    s["dynamic"] = False
    return {"spec": s}


def oracle_path(case):
    s = case["spec"]
    label = E.label(s)
    X = E.build_data(s)
    a = s["aff"]
    A = gens.ref_affinity(a, X)
    kw = E.build(s, X)[0].get_params(deep=False)
    cls = E.CLASSES[s["cls"]]
    pa = {"alpha_multiplier": 3.0, "min_features": 1, "max_patience": 1}
    r1 = quiet(cls(**kw).path, X, **pa)
    r2 = quiet(cls(**dict(kw, kernel="precomputed", kernel_params=None)).path, X, A, **pa)
    S = R.natural_scale("mmd", A)
    # the best-weights rule is a discrete decision on the scores: when the two score histories agree only up to the rounding
    # floor of the MMD (1.5e-8*S for a distance that is mathematically zero: the named route evaluates the kernel on a copy
    # of the data with another memory layout) the decision may legitimately fall on another step
    same_scores = np.array_equal(np.asarray(r1[1], dtype=float), np.asarray(r2[1], dtype=float), equal_nan=True)
    for nm, h1, h2 in zip(("best weights", "geminis", "penalties", "alphas", "n_features"), r1, r2):
        if nm == "best weights" and not same_scores:
            continue
        parts = zip(h1, h2) if nm == "best weights" else [(np.asarray(h1, dtype=float), np.asarray(h2, dtype=float))]
        for p1, p2 in parts:
            # MMD scores carry a rounding floor of 1e-8*S (square root of a cancellation), see DESIGN.md section 2
            atol = 1e-6 * S if nm == "geminis" else 1e-12
            if np.shape(p1) != np.shape(p2) or not np.allclose(p1, p2, rtol=1e-9, atol=atol, equal_nan=True):
                raise Violation(f"{label}: path with the named kernel and with the same matrix precomputed differ in {nm}: "
                                f"{np.asarray(p1).tolist()[:6]} vs {np.asarray(p2).tolist()[:6]}")
    return {"nontrivial": True, "classes": [s["cls"] + ":" + a["name"]]}


# ------------------------------------------------------------------------------------------------ KernelRIM and Kauri
@st.composite
def kernelrim_case(draw):
    s = draw(E.est_spec(classes=["KernelRIM"], n_max=10, d_max=3, iter_max=2, k_max=3, n_min=3))
    return {"spec": s, "m": draw(st.integers(1, 8)), "qseed": draw(gens.seeds)}


def oracle_kernelrim(case):
    s = case["spec"]
    label = E.label(s)
    X = E.build_data(s)
    est, _ = E.build(s, X)
    quiet(est.fit, X)
    rs = np.random.RandomState(case["qseed"])
    Q = X[rs.randint(len(X), size=case["m"])] + rs.randn(case["m"], X.shape[1]) * 0.5
    if E._data_nonneg(s):
        Q = np.abs(Q)
    Kq = np.asarray(quiet(est._compute_kernel, Q))
    ref = E.kernelrim_kernel(s, Q, X)
    if Kq.shape != ref.shape or not np.allclose(Kq, ref, rtol=1e-12, atol=1e-12 * max(1.0, float(np.max(np.abs(ref))))):
        raise Violation(f"{label}: the kernel between new and training points is not {s['base_kernel']['name']} "
                        f"{s['base_kernel']['params']} evaluated between them")
    g = est.get_gemini()
    if type(g).__name__ not in ("MI", "KLGEMINI") or getattr(g, "ovo", False):
        raise Violation(f"{label}: KernelRIM trains with {type(g).__name__}(ovo={getattr(g, 'ovo', None)}), documented objective is the mutual information")
    bk = s["base_kernel"]
    if bk["form"] == "named":
        # the named base kernel with its parameters == a callable computing exactly that kernel (training included)
        kw = est.get_params(deep=False)
        twin = type(est)(**dict(kw, base_kernel=lambda A, B: pairwise_kernels(A, B, metric=bk["name"], **bk["params"]),
                                base_kernel_params=None))
        import copy
        warm = E.build(s, X)[0]
        s0 = copy.deepcopy(s)
        s0["d"] = s0["x"]["d"] = s["d"] + 1 + s["random_state"] % 2
        s0["x"]["xseed"] = s["x"]["xseed"] + 1
        try:
            quiet(warm.fit, E.build_data(s0))
        except Exception:
            warm = E.build(s, X)[0]
        compare_fits(label, [E.build(s, X)[0], twin, warm], [(X, None), (X, None), (X, None)],
                     ["named base_kernel", "equivalent callable", "named base_kernel, fitted before on data with another number of features"])
    return {"nontrivial": bool(bk["params"] or bk["name"] != "linear"), "classes": ["KernelRIM:" + bk["form"] + ":" + bk["name"]]}


@st.composite
def kauri_case(draw):
    s = draw(E.kauri_spec(n_max=20, d_max=3))
    s["kernel"]["form"] = "named"
    return {"spec": s}


def oracle_kauri(case):
    from gemclus.tree import Kauri
    s = case["spec"]
    label = E.label(s)
    X = E.build_kauri_data(s)
    e1, _ = E.build_kauri(s, X)
    Kmat = np.ascontiguousarray(pairwise_kernels(X, metric=s["kernel"]["name"]), dtype=np.float64)
    kw = e1.get_params(deep=False)
    e2 = Kauri(**dict(kw, kernel="precomputed"))
    compare_fits(label, [e1, e2], [(X, None), (X, Kmat)], ["named", "precomputed"])
    return {"nontrivial": bool(s["kernel"]["name"] != "linear"), "classes": ["Kauri:" + s["kernel"]["name"]]}


def oracle_kauri_missing(case):
    """'precomputed' without a matrix is an error (known finding D14 for exactly Kauri.fit / Kauri.score)."""
    from gemclus.tree import Kauri
    s = case["spec"]
    X = E.build_kauri_data(s)
    kw = E.build_kauri(s, X)[0].get_params(deep=False)
    e3 = Kauri(**dict(kw, kernel="precomputed"))
    try:
        with warnings.catch_warnings():
            warnings.simplefilter("ignore")
            e3.fit(X)
    except (ValueError, TypeError):
        return {"nontrivial": True, "classes": ["raises"]}
    except Exception as e:
        raise Violation(f"{E.label(s)}: kernel='precomputed' without a matrix raised {type(e).__name__}: {e}")
    known("D14", "Kauri(kernel='precomputed').fit(X) without a kernel matrix returns (warning + linear kernel) instead of raising")


def _dyn_case():
    from .c10 import dynamic_long_case
    return dynamic_long_case()


def _dyn_oracle(case):
    """the affinity a dynamic path trains and validates with is the named kernel / metric of the features selected when the
    step began (shared with C10)"""
    from .c10 import oracle_path
    out = oracle_path(case)
    out["nontrivial"] = bool(out.get("counts", {}).get("epochs_on_reduced_selection", 0) > 0)
    return out


def subs():
    return [Sub("named_precomputed_callable", equiv_case(), oracle_equiv, 1200, 15000, "three ways of giving the same affinity"),
            Sub("convenience_vs_generic", generic_case(), oracle_generic, 1500, 20000, "convenience estimators vs explicit GEMINI instances"),
            Sub("path_named_precomputed", path_case(), oracle_path, 400, 5000, "paths with named vs precomputed kernels"),
            Sub("path_dynamic_affinity", _dyn_case(), _dyn_oracle, 40, 800, "dynamic paths: per-epoch and validation affinities are the named kernel of the selected features"),
            Sub("kernelrim", kernelrim_case(), oracle_kernelrim, 600, 8000, "KernelRIM's base kernel"),
            Sub("kauri", kauri_case(), oracle_kauri, 500, 8000, "Kauri named vs precomputed"),
            Sub("kauri_missing_matrix", kauri_case(), oracle_kauri_missing, 20, 100, "Kauri 'precomputed' without a matrix", shards=False)]

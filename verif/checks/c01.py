"""C01 - GEMINI scores equal their defining statistical distances."""
import warnings

import numpy as np
from sklearn.metrics import pairwise_distances
from hypothesis import strategies as st

from .. import gens
from ..harness import Sub, Violation, import_repo
from ..refs import gemini_ref as R
from ..objs import make_mmd, make_wass, FDIV
from .. import objs

import_repo()
import gemclus.gemini as G  # noqa: E402
from gemclus.gemini._utils import _str_to_gemini  # noqa: E402
from gemclus.linear import LinearModel  # noqa: E402

QUICK_SCALE = 2  # quick budgets below are multiplied by this (kept at about half a minute on 8 processes)
THOROUGH_SCALE = 3  # thorough budgets below are multiplied by this (about ten minutes on 16 processes)

RULE = ("P = softmax(scale*Z), scale in {0.05..20}, clipped to [1e-9,1-1e-9] and renormalised; n in [1,10] (<=8 for "
        "Wasserstein LPs), K in [2,6]; affinity from named scikit-learn kernels/metrics with drawn parameters, callables, "
        "precomputed PSD / indefinite / distance matrices. Non-trivial: n>=2 and reference score above its floor by 1e-6.")
ASSUMPTIONS = ["reference = literal definitions in verif/refs/gemini_ref.py; Wasserstein-1 by scipy HiGHS LP (not POT)",
               "tolerance 1e-8*max(S,|ref|), MMD 1e-6*S (cancellation under the square root), S = natural scale"]



def check_score(g, P, A, base, ovo, label):
    ref = R.gemini(base, ovo, P, A)
    Pc = P.copy()
    Ac = None if A is None else A.copy()
    v1 = g(P, A)
    v2 = g.evaluate(P, A)
    if not np.array_equal(P, Pc) or (A is not None and not np.array_equal(A, Ac)):
        raise Violation(f"{label}: evaluating the score modified its inputs")
    for v in (v1, v2):
        v = float(np.asarray(v))
        if not np.isfinite(v) or abs(v - ref) > R.score_tol(base, A, ref):
            raise Violation(f"{label}: library score {v!r} != defining distance {ref!r} "
                            f"(tolerance {R.score_tol(base, A, ref):.3g})" + (f" for P={P.tolist()}" if P.size <= 40 else f" for P of shape {P.shape}"))
    if A is not None and len(P) <= 64:
        # array-likes that share their buffer with what np.asarray returns (ndarray subclasses such as np.memmap,
        # objects with __array__): the objective may read them, twice in a row, but they remain the caller's
        for wrap in (lambda M: M.view(_ArraySubclass),):  # (np.matrix changes the meaning of * and sum: not an array-like here)
            As = wrap(A.copy())
            with warnings.catch_warnings():
                warnings.simplefilter("ignore")
                w1 = float(np.asarray(g(P, As, return_grad=True)[0]))
                w2 = float(np.asarray(g(P, As)))
            if not np.array_equal(np.asarray(As), A):
                raise Violation(f"{label}: evaluating the score modified the caller's affinity (given as {type(As).__name__})")
            for w in (w1, w2):
                if not np.isfinite(w) or abs(w - ref) > R.score_tol(base, A, ref):
                    raise Violation(f"{label}: library score {w!r} != defining distance {ref!r} when the affinity is given as "
                                    f"{type(As).__name__} (second evaluation on the same object included)")
    floor = 0.5 if base == "chi2" else 0.0
    return ref, (len(P) >= 2 and ref > floor + 1e-6)


class _ArraySubclass(np.ndarray):
    """a trivial ndarray subclass: np.asarray of it is a base-class *view* of the same buffer"""


# ------------------------------------------------------------------------------------------------ f-divergences
@st.composite
def fdiv_case(draw):
    return {"base": draw(st.sampled_from(sorted(FDIV))), "ovo": draw(st.booleans()), "via_mi": draw(st.booleans()),
            "p": draw(gens.p_spec(pkinds=gens.STRUCTURED_P, n_max=12))}


def oracle_fdiv(case):
    P = gens.build_P(case["p"])
    base, ovo = case["base"], case["ovo"]
    if base == "kl" and not ovo and case["via_mi"]:
        g = G.MI()
    else:
        g = getattr(G, FDIV[base])(ovo=ovo)
    if g.compute_affinity(np.zeros((len(P), 2))) is not None:
        raise Violation(f"{type(g).__name__}.compute_affinity returned a matrix; f-divergences use no affinity")
    ref, nt = check_score(g, P, None, base, ovo, f"{type(g).__name__}(ovo={ovo})")
    return {"nontrivial": nt, "classes": [f"{base}_{'ovo' if ovo else 'ova'}:scale={case['p']['scale']}"],
            "note": {"score": ref}}


# ------------------------------------------------------------------------------------------------ MMD
@st.composite
def mmd_case(draw):
    return {"ovo": draw(st.booleans()), "p": draw(gens.p_spec(pkinds=gens.STRUCTURED_P)), "x": draw(gens.x_spec(kinds=gens.LOWLEVEL_KINDS)),
            "a": draw(gens.kernel_spec(forms=("named", "callable", "precomputed", "psd", "indef", "foreign", "sk_callable", "sparse")))}


def check_affinity(A, Aref, label):
    A = np.asarray(A)
    if A.shape != Aref.shape or not np.allclose(A, Aref, rtol=1e-12, atol=1e-12 * max(1.0, np.max(np.abs(Aref)))):
        raise Violation(f"{label}: compute_affinity does not return the named/given matrix "
                        f"(max diff {np.max(np.abs(A - Aref)) if A.shape == Aref.shape else 'shape'})")


def oracle_mmd(case):
    P = gens.build_P(case["p"])
    a = case["a"]
    X = gens.build_X(case["x"], len(P), nonneg=gens.needs_nonneg(a))
    g, A, Aref = make_mmd(a, case["ovo"], X)
    objs._decoy(g, a, X)
    label = f"MMDGEMINI(ovo={case['ovo']}, {a['form']}:{a['name']}{a['params']})"
    check_affinity(A, Aref, label)
    ref, nt = check_score(g, P, np.asarray(A, dtype=float), "mmd", case["ovo"], label)
    return {"nontrivial": nt, "classes": [f"mmd_{'ovo' if case['ovo'] else 'ova'}:{a['form']}",
                                          "kernel:" + (a["name"] if a["form"] in ("named", "callable", "precomputed") else a["form"])],
            "note": {"score": ref}}


# ------------------------------------------------------------------------------------------------ Wasserstein
@st.composite
def wass_case(draw):
    return {"ovo": draw(st.booleans()), "p": draw(gens.p_spec(pkinds=gens.STRUCTURED_P, n_max=8, k_max=4)), "x": draw(gens.x_spec(kinds=gens.LOWLEVEL_KINDS)),
            "a": draw(gens.metric_spec(forms=("named", "precomputed", "randdist", "foreign", "sk_callable")))}


def oracle_wass(case):
    P = gens.build_P(case["p"])
    a = case["a"]
    X = gens.build_X(case["x"], len(P))
    g, A, Aref = make_wass(a, case["ovo"], X)
    objs._decoy(g, a, X)
    label = f"WassersteinGEMINI(ovo={case['ovo']}, {a['form']}:{a['name']}{a['params']})"
    check_affinity(A, Aref, label)
    ref, nt = check_score(g, P, np.ascontiguousarray(A, dtype=float), "wasserstein", case["ovo"], label)
    return {"nontrivial": nt, "classes": [f"wasserstein_{'ovo' if case['ovo'] else 'ova'}:{a['form']}",
                                          "metric:" + (a["name"] if a["form"] != "randdist" else "randdist")],
            "note": {"score": ref}}


# ------------------------------------------------------------------------------------------------ registry names
@st.composite
def registry_case(draw):
    return {"name": draw(st.sampled_from(sorted(R.NAMES) + ["<None>"])), "route": draw(st.sampled_from(["model", "table"])),
            "p": draw(gens.p_spec(pkinds=gens.STRUCTURED_P, n_max=8, k_max=4)), "x": draw(gens.x_spec(kinds=gens.LOWLEVEL_KINDS))}


def oracle_registry(case):
    name = case["name"]
    if sorted(G.AVAILABLE_GEMINIS) != sorted(R.NAMES):
        raise Violation(f"AVAILABLE_GEMINIS {sorted(G.AVAILABLE_GEMINIS)} differs from the 13 documented names")
    P = gens.build_P(case["p"])
    X = gens.build_X(case["x"], len(P))
    if name == "<None>":
        g = LinearModel(gemini=None).get_gemini()
        base, ovo = "mmd", False
    elif case["route"] == "model":
        g = LinearModel(gemini=name).get_gemini()
        base, ovo = R.NAMES[name]
    else:
        first = _str_to_gemini(name)  # an object handed out earlier and customised by its owner is its owner's business
        if hasattr(first, "ovo"):
            first.ovo = not first.ovo
        first.epsilon = 0.25
        for attr, val in (("kernel", "rbf"), ("metric", "cosine")):
            if hasattr(first, attr):
                setattr(first, attr, val)
        g = _str_to_gemini(name)
        base, ovo = R.NAMES[name]
    A = g.compute_affinity(X)
    if base == "mmd":
        Aref = X @ X.T  # default affinities: linear kernel / Euclidean distance
    elif base == "wasserstein":
        Aref = pairwise_distances(X, metric="euclidean")
    else:
        Aref = None
    if Aref is None:
        if A is not None:
            raise Violation(f"'{name}': compute_affinity returned a matrix for an f-divergence")
    else:
        check_affinity(A, Aref, f"'{name}'")
        A = np.ascontiguousarray(A, dtype=float)
    ref, nt = check_score(g, P, A, base, ovo, f"registry name '{name}' via {case['route']}")
    return {"nontrivial": nt, "classes": [f"name:{name}"], "note": {"score": ref}}


# ------------------------------------------------------------------------------------------------ large shapes
@st.composite
def large_case(draw):
    gs = draw(objs.gemini_spec(foreign=True, kernel_forms=("named", "psd", "precomputed"), metric_forms=("named", "randdist", "foreign")))
    if gs["base"] == "wasserstein":
        p = draw(gens.p_spec(pkinds=gens.STRUCTURED_P, n_min=9, n_max=26, k_max=4))
    else:
        p = draw(gens.p_spec(pkinds=gens.STRUCTURED_P, n_min=20, n_max=320, k_min=2, k_max=48))
    return {"g": gs, "p": p, "x": draw(gens.x_spec(kinds=gens.LOWLEVEL_KINDS))}


def oracle_large(case):
    gs = case["g"]
    P = gens.build_P(case["p"])
    X = gens.build_X(case["x"], len(P), nonneg=objs.gs_needs_nonneg(gs))
    g, A, label = objs.make_gemini(gs, X)
    ref, nt = check_score(g, P, A, gs["base"], gs["ovo"], label + f" n={len(P)} K={P.shape[1]}")
    return {"nontrivial": nt, "classes": [objs.gs_class(gs), f"n>={50 * (len(P) // 50)}", f"K>={8 * (P.shape[1] // 8)}"],
            "note": {"score": ref}}


@st.composite
def wass_large_case(draw):
    gs = draw(objs.gemini_spec(foreign=True, bases=("wasserstein",), metric_forms=("named", "randdist", "foreign")))
    return {"g": gs, "p": draw(gens.p_spec(n_min=40, n_max=150, k_min=2, k_max=6)), "x": draw(gens.x_spec(d_max=3, kinds=("normal", "grid")))}


@st.composite
def huge_case(draw):
    gs = draw(objs.gemini_spec(foreign=True, bases=("tv", "kl", "mmd", "hellinger", "chi2"), kernel_forms=("named",)))
    return {"g": gs, "p": draw(gens.p_spec(n_min=1025, n_max=2600, k_min=2, k_max=5)), "x": draw(gens.x_spec(d_max=2, kinds=("normal",)))}


@st.composite
def huge_nk_case(draw):
    gs = draw(objs.gemini_spec(foreign=True, bases=("tv", "kl", "hellinger", "chi2", "mmd"), kernel_forms=("named",)))
    return {"g": gs, "p": draw(gens.p_spec(n_min=660, n_max=1700, k_min=26, k_max=48)), "x": draw(gens.x_spec(d_max=2, kinds=("normal",)))}


@st.composite
def mmd_eps_case(draw):
    """epsilon is a documented constructor parameter: with a raised epsilon and confident predictions part of the entries is
    clipped; the MMD objectives then are exactly the MMD GEMINI of the clipped predictions (cluster distributions are
    normalised by their own mass)"""
    a = draw(gens.kernel_spec(forms=("named", "precomputed", "psd"), names=["linear", "polynomial", "rbf", "laplacian"]))
    return {"ovo": draw(st.booleans()), "a": a, "eps": draw(st.sampled_from([1e-3, 1e-2, 0.05])),
            "p": draw(gens.p_spec(n_max=12, k_max=5, scales=[10.0, 20.0, 40.0, 4.0])),
            "x": draw(gens.x_spec(kinds=("scaled", "normal", "mixed_units", "big")))}


def oracle_mmd_eps(case):
    P = gens.build_P(case["p"], floor=0)
    a = case["a"]
    X = gens.build_X(case["x"], len(P), nonneg=gens.needs_nonneg(a))
    g, A, Aref = make_mmd(a, case["ovo"], X)
    g.epsilon = case["eps"]
    A = np.ascontiguousarray(A, dtype=float)
    label = f"MMDGEMINI(ovo={case['ovo']}, {a['form']}:{a['name']}{a['params']}, epsilon={case['eps']})"
    Pc = np.clip(P, case["eps"], 1 - case["eps"])
    ref = R.gemini("mmd", case["ovo"], Pc, A)
    v = float(np.asarray(g(P, A)))
    tol = R.score_tol("mmd", A, ref)
    clipped = int(np.sum((P < case["eps"]) | (P > 1 - case["eps"])))
    if not np.isfinite(v) or abs(v - ref) > tol:
        raise Violation(f"{label}: library score {v!r} != MMD GEMINI of the predictions clipped to [epsilon, 1-epsilon] {ref!r} "
                        f"(tolerance {tol:.3g}; {clipped} clipped entries)" + (f" for P={P.tolist()}" if P.size <= 40 else ""))
    return {"nontrivial": bool(clipped > 0 and ref > 1e-9 * R.natural_scale("mmd", A)), "classes": [f"eps={case['eps']}", "kernel:" + a["name"]],
            "counts": {"clipped_entries": clipped}}


def subs():
    return [
        Sub("mmd_raised_epsilon", mmd_eps_case(), oracle_mmd_eps, 600, 10000, "MMD with epsilon 1e-3..0.05 and confident predictions (clipped entries)"),
        Sub("huge_nk", huge_nk_case(), oracle_large, 40, 500, "n*K^2 beyond 2^20 (n up to 1700 with K up to 48)"),
        Sub("huge_n", huge_case(), oracle_large, 80, 800, "n in (1024, 2600]: block sizes of 1024/2048 rows"),
        Sub("wasserstein_large", wass_large_case(), oracle_large, 16, 500, "Wasserstein on 40-150 samples, up to 6 clusters (LP reference)"),
        Sub("large_shapes", large_case(), oracle_large, 600, 12000, "n up to 320 and K up to 48 (size thresholds, blocked code paths)"),
        Sub("fdivergences", fdiv_case(), oracle_fdiv, 6000, 100000, "4 f-divergence classes x ovo (+MI shortcut)"),
        Sub("mmd", mmd_case(), oracle_mmd, 4000, 60000, "MMDGEMINI over kernel forms"),
        Sub("wasserstein", wass_case(), oracle_wass, 1500, 20000, "WassersteinGEMINI over metric forms, LP reference"),
        Sub("registry", registry_case(), oracle_registry, 2000, 20000, "13 names + None through get_gemini / registry"),
    ]

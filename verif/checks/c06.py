"""C06 - unselected features are inert; selection reads exact zeros; groups stay whole; shrinkage = prox(alpha*lr)."""
import warnings

import numpy as np
from hypothesis import strategies as st

from .. import estimators as E
from .. import gens
from ..harness import Sub, Violation
from ..refs import prox_ref
from ..spy import optimiser_spy, val_score_spy

QUICK_SCALE = 5  # quick budgets below are multiplied by this (kept at about half a minute on 8 processes)
THOROUGH_SCALE = 10  # thorough budgets below are multiplied by this (about ten minutes on 16 processes)

RULE = ("real fits and paths of the 5 sparse estimators (any GEMINI, alpha in {0..10}, M, full / partial / no groups, batch "
        "sizes, dynamic on/off, both solvers, learning rates 0.01-0.5); weights are snapshotted right after every "
        "optimiser step and again after the model's own _update_weights; history points = after fit, after every path "
        "step, after path returns (restoration included). Non-trivial: a history point with >=1 unselected and >=1 "
        "selected feature.")
ASSUMPTIONS = ["reference proximal step from verif/refs/prox_ref.py (C05's oracle), compared to 1e-9 relative to the weight scale",
               "perturbed inputs replace the unselected columns by values up to 1e6; predict_proba must be bit-identical"]


def skip_matrix(est):
    return est.W_skip_ if hasattr(est, "W_skip_") else est.W_


def expected_groups(groups, d):
    if groups is None:
        return None
    covered = [i for g in groups for i in g]
    return [list(g) for g in groups] + [[i] for i in range(d) if i not in covered]


class Watcher:
    def __init__(self, est, s, X, label):
        self.est, self.s, self.X, self.label = est, s, X, label
        self.before = None
        self.stats = {"prox_steps": 0, "history_points": 0, "mixed_points": 0, "rows_zeroed_by_prox": 0}
        self.is_mlp = s["cls"] in ("SparseMLPModel", "SparseMLPMMD")
        orig = est._update_weights

        def wrapped(weights, grads):
            orig(weights, grads)
            self.after_prox()

        est._update_weights = wrapped

    # called right after the optimiser's own update
    def after_opt(self, opt, params, grads):
        est = self.est
        self.before = {k: getattr(est, k).copy() for k in self.names()}
        self.lr = float(opt.learning_rate)

    def names(self):
        return ["W1_", "W2_", "W_skip_", "b1_", "b2_"] if self.is_mlp else ["W_", "b_"]

    def after_prox(self):
        est, s = self.est, self.s
        if self.before is None:
            return
        self.stats["prox_steps"] += 1
        thr = float(est.alpha) * float(est.optimiser_.learning_rate)
        if float(est.optimiser_.learning_rate) != self.lr:
            raise Violation(f"{self.label}: optimiser learning rate changed between the step and the shrinkage")
        groups = est.groups_
        d = self.X.shape[1]
        gl = [[i] for i in range(d)] if groups is None else groups
        b = self.before
        if self.is_mlp:
            V, U = b["W_skip_"], b["W1_"]
            scale = max(1.0, float(np.max(np.abs(V))), float(np.max(np.abs(U))))
            for g in gl:
                if len(g) == 0:
                    continue  # a group without features has nothing to shrink
                if not np.any(V[g] != 0) and (np.any(U[g] != 0) or thr == 0):
                    continue  # outside the stated scope of the hierarchical operator
                rb, rt, _, _ = prox_ref.hier_prox(V[g], U[g], thr, float(est.M))
                if not (np.allclose(est.W_skip_[g], rb, rtol=0, atol=1e-7 * scale) and np.allclose(est.W1_[g], rt, rtol=0, atol=1e-7 * scale)):
                    raise Violation(f"{self.label}: after an optimiser step the weights of feature(s) {g} are not the hierarchical "
                                    f"proximal step with threshold alpha*lr = {est.alpha}*{est.optimiser_.learning_rate} "
                                    f"(M={est.M}): skip {est.W_skip_[g].tolist()} vs {rb.tolist()}, hidden {est.W1_[g].tolist()} vs {rt.tolist()}")
                if np.any(V[g] != 0) and not np.any(rb != 0):
                    self.stats["rows_zeroed_by_prox"] += 1
            for k in ("W2_", "b1_", "b2_"):
                if not np.array_equal(getattr(est, k), b[k]):
                    raise Violation(f"{self.label}: the shrinkage step changed {k}, which carries no penalty")
        else:
            W = b["W_"]
            scale = max(1.0, float(np.max(np.abs(W))))
            for g in gl:
                if len(g) == 0:
                    continue  # a group without features has nothing to shrink
                ref = prox_ref.group_lasso_prox(W[g], thr)
                if not np.allclose(est.W_[g], ref, rtol=0, atol=1e-9 * scale):
                    raise Violation(f"{self.label}: after an optimiser step the weights of feature(s) {g} are not the group-lasso "
                                    f"proximal step with threshold alpha*lr = {est.alpha}*{est.optimiser_.learning_rate}: "
                                    f"{est.W_[g].tolist()} vs {ref.tolist()}")
                if np.any(W[g] != 0) and not np.any(ref != 0):
                    self.stats["rows_zeroed_by_prox"] += 1
            if not np.array_equal(est.b_, b["b_"]):
                raise Violation(f"{self.label}: the shrinkage step changed the bias")
        self.before = None
        if self.stats["prox_steps"] % 4 == 1:
            self.history_point("after a training step")

    def history_point(self, where):
        est, s, X = self.est, self.s, self.X
        self.stats["history_points"] += 1
        Wm = skip_matrix(est)
        d = X.shape[1]
        mine = np.array([i for i in range(d) if np.any(Wm[i] != 0)], dtype=int)
        sel = np.asarray(est.get_selection())
        if not np.array_equal(np.sort(sel), mine):
            raise Violation(f"{self.label} [{where}]: get_selection() = {sel.tolist()} but the features with a non-zero "
                            f"(skip-)weight row are {mine.tolist()}")
        unsel = [i for i in range(d) if i not in set(mine.tolist())]
        if self.is_mlp:
            for i in unsel:
                if np.any(est.W1_[i] != 0):
                    raise Violation(f"{self.label} [{where}]: feature {i} is unselected but its first-layer weights are "
                                    f"{est.W1_[i].tolist()}")
        want_groups = expected_groups(s.get("groups"), d)
        if want_groups is None:
            if est.groups_ is not None:
                raise Violation(f"{self.label} [{where}]: groups_ = {est.groups_} although no groups were declared")
        else:
            got = [sorted(g) for g in est.groups_]
            if sorted(got) != sorted(sorted(g) for g in want_groups) or sorted(i for g in got for i in g) != list(range(d)):
                raise Violation(f"{self.label} [{where}]: groups_ = {est.groups_}, expected the declared groups completed by "
                                f"singletons {want_groups}")
            for g in s["groups"]:
                ins = [i in set(mine.tolist()) for i in g]
                if any(ins) and not all(ins):
                    raise Violation(f"{self.label} [{where}]: declared group {g} is partly selected (selection {mine.tolist()})")
        if unsel:
            P0 = est.predict_proba(X)
            rs = np.random.RandomState(len(unsel) + 7 * self.stats["history_points"])
            for trial in range(2):
                X2 = X.copy()
                X2[:, unsel] = rs.randn(len(X), len(unsel)) * (1e6 if trial else 3.0)
                P1 = est.predict_proba(X2)
                if not np.array_equal(P0, P1):
                    raise Violation(f"{self.label} [{where}]: changing the unselected features {unsel} changes predict_proba "
                                    f"(max difference {np.max(np.abs(P0 - P1))!r})")
        if unsel and len(mine):
            self.stats["mixed_points"] += 1


def w_orig_update(est):
    """the estimator's own _update_weights (the watcher's wrapper belongs to the first fit only)"""
    return type(est)._update_weights.__get__(est)


@st.composite
def fit_case(draw):
    s = draw(E.est_spec(classes=E.SPARSE, n_max=12, d_max=7, iter_max=6, k_max=3, hidden_max=3, lr=(0.5, 0.1, 0.01), d_min=2, n_min=4))
    s["alpha"] = draw(st.sampled_from([0.3, 1.0, 0.1, 3.0, 0.6, 10.0, 0.0, 0.01]))
    return {"spec": s}


def oracle_fit(case):
    s = case["spec"]
    label = E.label(s)
    X = E.build_data(s)
    est, y = E.build(s, X)
    w = Watcher(est, s, X, label)
    with warnings.catch_warnings():
        warnings.simplefilter("ignore")
        with np.errstate(all="ignore"), optimiser_spy(after=w.after_opt):
            try:
                est.fit(X, y)
            except Violation:
                raise
            except Exception as e:
                return {"nontrivial": False, "classes": [s["cls"] + ":fit_raised"], "counts": {"fit_raised": 1},
                        "note": f"{type(e).__name__}: {e}"}
        w.history_point("after fit")
        narrower = 0
        d = X.shape[1]
        if s.get("groups") and max(i for g in s["groups"] for i in g) < d - 1 and y is None:
            # the same estimator, with the same declaration, on data with fewer features (all declared features still there):
            # the partial list is completed with singletons for that width too
            d2 = max(i for g in s["groups"] for i in g) + 1
            est._update_weights = w_orig_update(est)
            try:
                est.fit(np.ascontiguousarray(X[:, :d2]))
            except Exception as e:
                raise Violation(f"{label}: after a fit on {d} features, fitting the same estimator (groups={s['groups']}) on the "
                                f"first {d2} features raised {type(e).__name__}: {e}")
            got = sorted(sorted(int(i) for i in g) for g in est.groups_)
            want = sorted(sorted(g) for g in expected_groups(s["groups"], d2))
            if got != want:
                raise Violation(f"{label}: refitted on {d2} features, groups_ = {est.groups_}, expected the declared groups "
                                f"completed by singletons {want}")
            narrower = 1
    return {"nontrivial": bool(w.stats["mixed_points"]), "classes": [s["cls"], "groups:" + ("none" if s["groups"] is None else "yes"),
                                                                      "solver:" + s["solver"]], "counts": w.stats}


@st.composite
def path_case(draw):
    s = draw(E.est_spec(classes=E.SPARSE, n_max=12, d_max=7, iter_max=3, k_max=3, hidden_max=3, lr=(0.1, 0.5, 0.01), d_min=2, n_min=4))
    s["alpha"] = draw(st.sampled_from([0.5, 0.05, 2.0]))
    return {"spec": s, "path": {"alpha_multiplier": draw(st.sampled_from([1.5, 3.0, 1.1])), "min_features": draw(st.integers(1, 3)),
                                "max_patience": draw(st.integers(1, 3)), "restore_best_weights": draw(st.booleans()),
                                "keep_threshold": draw(st.sampled_from([0.9, 0.5, 1.0]))}}


@st.composite
def mlp_slow_path_case(draw):
    """slow paths (multiplier 1.03-1.1) of the sparse MLP models with small batches and sizeable steps: features that were
    discarded at the step kept as 'best' come back to life later on, then the best weights are restored"""
    cls = draw(st.sampled_from(["SparseMLPMMD", "SparseMLPModel"]))
    s = draw(E.est_spec(classes=[cls], n_max=24, d_max=6, iter_max=2, k_max=3, hidden_max=4, lr=(0.08, 0.1, 0.2), d_min=4, n_min=12,
                        gem_names=["mmd_ova", "mi", "mmd_ovo"], allow_instance=False, kernel_forms=("named",), xkinds=("normal", "blobs")))
    s["dynamic"] = False
    s["groups"] = None
    s.pop("gcont", None)
    s["batch_size"] = draw(st.sampled_from([6, 4, 8]))
    s["alpha"] = draw(st.sampled_from([0.05, 0.1, 0.02]))
    s["M"] = draw(st.sampled_from([10.0, 1.0, 100.0]))
    return {"spec": s, "path": {"alpha_multiplier": draw(st.sampled_from([1.05, 1.03, 1.1])), "min_features": draw(st.integers(1, 2)),
                                "max_patience": draw(st.integers(1, 3)), "restore_best_weights": True,
                                "keep_threshold": draw(st.sampled_from([0.9, 0.8, 0.95]))},
            "light": True}  # hundreds of steps: the model is examined at the end of the path only


def oracle_path(case):
    s = case["spec"]
    label = E.label(s) + f".path({case['path']})"
    X = E.build_data(s)
    est, y = E.build(s, X)
    w = Watcher(est, s, X, label)
    import contextlib
    if case.get("light"):
        est._update_weights = w_orig_update(est)  # no per-step observation on paths of tens of thousands of steps

    def on_val(clf, Xv, yv, bs, res):
        if hasattr(clf, "optimiser_") and not case.get("light"):
            w.history_point("path step")

    with warnings.catch_warnings():
        warnings.simplefilter("ignore")
        with np.errstate(all="ignore"), (contextlib.nullcontext() if case.get("light") else optimiser_spy(after=w.after_opt)), \
                (contextlib.nullcontext() if case.get("light") else val_score_spy(on_val)):
            try:
                out = est.path(X, y, **case["path"])
            except Violation:
                raise
            except Exception as e:
                return {"nontrivial": bool(w.stats["mixed_points"]), "classes": [s["cls"] + ":path_raised"],
                        "counts": {**w.stats, "path_raised": 1}, "note": f"{type(e).__name__}: {e}"}
        w.history_point("after path")
        if case["path"].get("restore_best_weights") and not s.get("dynamic"):
            # after restoration the estimator is the returned best model, array by array
            bw = out[0]
            now = est._get_weights()
            if len(bw) != len(now) or any(not np.array_equal(a, b) for a, b in zip(bw, now)):
                bad = [i for i, (a, b) in enumerate(zip(bw, now)) if not np.array_equal(a, b)]
                raise Violation(f"{label}: after restoration the estimator's weight arrays {bad} differ from the returned best weights")
    return {"nontrivial": bool(w.stats["mixed_points"]),
            "classes": [s["cls"] + (":dynamic" if s.get("dynamic") else ""), "restore:" + str(case["path"]["restore_best_weights"])],
            "counts": w.stats}


def subs():
    return [Sub("path_mlp_slow", mlp_slow_path_case(), oracle_path, 40, 1500, "slow restored paths of the sparse MLP models (features die and revive)"),
            Sub("fit", fit_case(), oracle_fit, 600, 15000, "fits of the sparse estimators"),
            Sub("path", path_case(), oracle_path, 300, 6000, "paths of the sparse estimators")]

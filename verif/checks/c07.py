"""C07 - the regularisation path honours its stopping, history and best-weights contract."""
import math
import warnings

import numpy as np
from hypothesis import strategies as st
from sklearn.base import clone

from .. import estimators as E
from .. import gens
from ..harness import Sub, Violation
from ..refs import path_ref
from ..spy import val_score_spy
from .c06 import skip_matrix

QUICK_SCALE = 5  # quick budgets below are multiplied by this (kept at about half a minute on 8 processes)
THOROUGH_SCALE = 15  # thorough budgets below are multiplied by this (about ten minutes on 16 processes)

TERMINATION_IS_PROPERTY = True  # "fit ... terminates", "path() always terminates": the watchdog of the harness reports here

RULE = ("paths of the 5 sparse estimators: alpha in {0, 0.05, 0.5, 5}, alpha_multiplier in and out of range, min_features "
        "in/out of range, keep_threshold in/out, patience / early-stopping settings, batch sizes, computed or precomputed "
        "affinity, dynamic mode; n<=16, d in [2,6], max_iter<=5. compute_val_score (module attribute) is wrapped and "
        "records weights, score and the model's alpha at every call; calls are grouped into path steps by the alpha in "
        "force. Non-trivial: >=3 path steps and a best-weights step that is neither the first nor the last.")
ASSUMPTIONS = ["termination is decided as 'within the number of validation-score calls implied by the geometric schedule "
               "reaching 1e12/learning_rate' (a bounded-liveness reading); exceeding it is reported as non-termination",
               "with alpha = 0 and more features than min_features no geometric schedule can ever finish: the only "
               "acceptable outcomes are a ValueError or a terminating path",
               "the best score is the running best at the time each step is judged"]


class _NonTermination(BaseException):
    pass


def weights_of(est):
    return [w.copy() for w in est._get_weights()]


@st.composite
def path_case(draw, defaults=False):
    s = draw(E.est_spec(classes=E.SPARSE, n_max=16, d_max=6, iter_max=5, k_max=3, hidden_max=3, lr=(0.1, 0.5, 0.01), d_min=2, n_min=4,
                        kernel_forms=("named", "precomputed", "callable")))
    s["alpha"] = draw(st.sampled_from([0.05, 0.5, 0.2, 0.05, 5.0, 0.1, 0.5, 0.02, 1.0, 0.2, 0.05, 0.0]))
    d = s["d"]
    if defaults:
        s["alpha"] = draw(st.sampled_from([2.0, 5.0]))
        s["learning_rate"] = 0.5
        which = draw(st.sampled_from(["alpha_multiplier", "keep_threshold", "min_features"]))
        pa = {"alpha_multiplier": 2.0, "min_features": draw(st.integers(1, 2)), "keep_threshold": 0.9}
        pa[which] = draw(st.sampled_from({"alpha_multiplier": [1.0, 0.5, -2.0], "keep_threshold": [-0.1, 1.5, 7.0],
                                          "min_features": [0, -1, -5]}[which]))
        if which == "keep_threshold":
            # several steps with scores close to one another, so that the value of the threshold matters
            s["alpha"] = draw(st.sampled_from([0.05, 0.1, 0.2]))
            s["learning_rate"] = draw(st.sampled_from([0.1, 0.5]))
            pa["alpha_multiplier"] = draw(st.sampled_from([1.3, 1.5]))
            pa["min_features"] = 1
        return {"spec": s, "path": pa, "which": which}
    pa = {"alpha_multiplier": draw(st.sampled_from([1.5, 1.2, 2.0, 1.5, 4.0])),
          "min_features": draw(st.sampled_from([1, 2, 3, d, d + 1, 2, 1])),
          "keep_threshold": draw(st.sampled_from([0.9, 0.5, 1.0, 0.0, 0.99])),
          "restore_best_weights": draw(st.booleans()),
          "early_stopping_factor": draw(st.sampled_from([0.99, 0.5, 1.0])),
          "max_patience": draw(st.sampled_from([2, 1, 10]))}
    # one path in five meets a GEMINI whose score turns NaN after so many validation evaluations of the penalised phase
    nan_after = draw(st.one_of(st.none(), st.none(), st.none(), st.none(), st.integers(1, 14)))
    # a user-written objective may take negative values (a signed cost, a score with a constant subtracted): one path in six
    shift = draw(st.sampled_from([None, None, None, None, None, 1.0, 0.3]))
    return {"spec": s, "path": pa, "nan_after": nan_after, "score_shift": shift}


def shift_scores(est, c):
    """the model's objective with a constant subtracted from every score (gradients unchanged)"""
    g = est.get_gemini()
    base = type(g)

    class Shifted(base):
        def __call__(self, y_pred, affinity, return_grad=False):
            out = base.__call__(self, y_pred, affinity, return_grad)
            if return_grad:
                return out[0] - c, out[1]
            return out - c

    g.__class__ = Shifted
    est.get_gemini = lambda: g


@st.composite
def grouped_path_case(draw):
    """paths of models with at least one multi-feature group (the one-hot use case), many steps: the feature count and the
    number of penalised variables differ"""
    c = draw(path_case())
    s = c["spec"]
    d = s["d"] = s["x"]["d"] = draw(st.integers(4, 6))
    perm = draw(st.permutations(range(d)))
    size = draw(st.integers(2, 3))
    groups = [[int(i) for i in perm[:size]]]
    if draw(st.booleans()) and d - size >= 2:
        groups.append([int(i) for i in perm[size:size + 2]])
    s["groups"] = groups
    s["alpha"] = draw(st.sampled_from([0.05, 0.1, 0.2, 0.02]))
    c["path"]["alpha_multiplier"] = draw(st.sampled_from([1.5, 1.2, 2.0]))
    c["path"]["keep_threshold"] = draw(st.sampled_from([0.9, 0.8, 0.99, 0.5]))
    c["path"]["min_features"] = draw(st.sampled_from([1, 2]))
    c["nan_after"] = None
    return c


@st.composite
def deep_path_case(draw):
    """a fine path (multiplier 1.01-1.03, hundreds of epochs per step) over a one-hot group with an unused category: the
    weights of the all-zero column are only ever rescaled and end up hundreds of orders of magnitude below the others"""
    cls = draw(st.sampled_from(["SparseLinearMMD", "SparseLinearModel", "SparseLinearMI"]))
    s = draw(E.est_spec(classes=[cls], n_max=60, d_max=7, iter_max=1, k_max=3, n_min=30, d_min=6, gem_names=["mmd_ova", "mi", "kl_ovo"],
                        allow_instance=False, kernel_forms=("named",)))
    s.update({"n": draw(st.sampled_from([30, 60])), "n_clusters": 3, "learning_rate": 1.0, "solver": "sgd", "alpha": 0.2,
              "max_iter": draw(st.sampled_from([200, 120])), "groups": [[0, 1, 2, 3]], "batch_size": None})
    s.pop("gcont", None)
    s.pop("ntype", None)
    s.pop("verbose", None)
    if "aff" in s:
        s["aff"] = {"fam": "kernel", "form": "named", "name": "linear", "params": {}, "aseed": 0}
    if "dynamic" in s:
        s["dynamic"] = False
    s["x"] = {"d": s["d"], "xseed": draw(gens.seeds), "xkind": "onehot_unused"}
    pa = {"alpha_multiplier": draw(st.sampled_from([1.01, 1.02, 1.03])), "min_features": 3, "keep_threshold": 0.9,
          "restore_best_weights": draw(st.booleans()), "early_stopping_factor": 0.99, "max_patience": 10}
    return {"spec": s, "path": pa, "nan_after": None, "score_shift": None}


@st.composite
def wide_path_case(draw):
    """paths on data with hundreds of features (more columns than samples, the setting feature selection is meant for)"""
    cls = draw(st.sampled_from(["SparseLinearMMD", "SparseLinearModel", "SparseLinearMI", "SparseMLPModel"]))
    s = draw(E.est_spec(classes=[cls], n_max=30, d_max=4, iter_max=3, k_max=3, hidden_max=3, n_min=10, gem_names=["mmd_ova", "mi", "kl_ovo"],
                        allow_instance=False, kernel_forms=("named",), lr=(0.1, 0.5), xkinds=("normal", "blobs")))
    s["d"] = s["x"]["d"] = draw(st.sampled_from([257, 300, 384, 260]))
    s["groups"] = None
    s.pop("gcont", None)
    s["alpha"] = draw(st.sampled_from([0.05, 0.2, 0.5]))
    pa = {"alpha_multiplier": draw(st.sampled_from([1.3, 1.5, 2.0])), "min_features": draw(st.sampled_from([2, 20, 100])),
          "keep_threshold": draw(st.sampled_from([0.9, 0.8, 0.99])), "restore_best_weights": draw(st.booleans()),
          "early_stopping_factor": 0.99, "max_patience": draw(st.sampled_from([1, 2]))}
    return {"spec": s, "path": pa, "nan_after": None, "score_shift": None}


def poison(est, limit):
    """From the `limit`-th score-only evaluation made while a penalty is in force, the objective of `est` reports NaN (what
    an overflowing kernel or a user-written GEMINI does); gradients and affinities are untouched."""
    g = est.get_gemini()
    base = type(g)
    state = {"n": 0}

    class Poisoned(base):
        def __call__(self, y_pred, affinity, return_grad=False):
            out = base.__call__(self, y_pred, affinity, return_grad)
            if return_grad or est.alpha == 0:
                return out
            state["n"] += 1
            return float("nan") if state["n"] >= limit else out

    g.__class__ = Poisoned
    est.get_gemini = lambda: g
    return state


def run_path(est, X, y, pa, s, label):
    """Runs est.path under observation; returns (result, calls, nan_abort) or raises Violation."""
    calls = []
    lr = s["learning_rate"]
    alpha0 = s["alpha"]
    m = pa["alpha_multiplier"] if pa["alpha_multiplier"] > 1 else 1.05
    if alpha0 > 0:
        steps_bound = math.ceil(math.log(1e12 / (alpha0 * lr)) / math.log(m)) + 2
    else:
        steps_bound = 60
    call_bound = (steps_bound + 1) * (s["max_iter"] + 1) + 2

    def on_val(clf, Xv, yv, bs, res):
        if len(calls) > call_bound:
            # beyond the schedule that reaches alpha = 1e12/lr: still legitimate while the weights themselves are huge
            # (diverged training: chi-square objectives of 1e11 under M=100); reported once the shrinkage threshold dwarfs
            # every weight and features survive nevertheless, or after twenty times the bound
            wmax = max([float(np.max(np.abs(w))) for w in clf._get_weights() if np.size(w)] + [1.0])
            if not np.isfinite(wmax) or float(clf.alpha) * lr > 1e6 * wmax or len(calls) > 20 * call_bound:
                raise _NonTermination()
        calls.append({"bs": int(bs), "alpha": float(clf.alpha), "score": float(res[0]), "l1": float(res[1]), "weights": weights_of(clf),
                      "nsel": int((np.linalg.norm(skip_matrix(clf), axis=1) != 0).sum())})

    with warnings.catch_warnings(record=True) as wrn:
        warnings.simplefilter("always")
        with np.errstate(all="ignore"), val_score_spy(on_val):
            try:
                res = est.path(X, y, **pa)
            except _NonTermination:
                raise Violation(f"{label}: path() did not terminate: more than {call_bound} validation-score evaluations, "
                                f"i.e. more than the {steps_bound} steps a geometric schedule needs to reach alpha=1e12/lr "
                                f"(model alpha {alpha0}, multiplier {m})")
    return res, calls, [str(w.message) for w in wrn]


def oracle_path(case):
    s = case["spec"]
    pa = dict(case["path"])
    label = E.label(s) + f".path({pa})"
    X = E.build_data(s)
    est, y = E.build(s, X)
    d = X.shape[1]
    if case.get("score_shift"):
        shift_scores(est, case["score_shift"])
        label += f" [objective minus {case['score_shift']}]"
    if case.get("nan_after") and s["alpha"] > 0:
        poison(est, case["nan_after"])
        label += f" [score becomes NaN at the {case['nan_after']}-th validation evaluation under a penalty]"
    try:
        res, calls, wrn = run_path(est, X, y, pa, s, label)
    except Violation:
        raise
    except ValueError as e:
        if s["alpha"] == 0:
            return {"nontrivial": False, "classes": ["alpha0:rejected"], "note": str(e)}
        raise Violation(f"{label}: path raised ValueError: {e}")
    except Exception as e:
        raise Violation(f"{label}: path raised {type(e).__name__}: {e}")
    if est.alpha != s["alpha"]:
        raise Violation(f"{label}: path() left the estimator's alpha at {est.alpha!r}, it was constructed with {s['alpha']!r}")
    if not (isinstance(res, tuple) and len(res) == 5):
        raise Violation(f"{label}: path returned {type(res).__name__} of length {len(res) if hasattr(res, '__len__') else '?'}")
    best_weights, geminis, penalties, alphas, n_features = res
    L = len(alphas)
    want_bs = len(X) if s.get("batch_size") is None else s["batch_size"]
    odd = sorted({c["bs"] for c in calls if min(c["bs"], len(X)) != min(want_bs, len(X))})  # larger than the data = the whole data
    if odd:
        raise Violation(f"{label}: validation scores were computed over blocks of {odd} rows while the model's batch size is "
                        f"{want_bs}: the scores that the best-weights rule compares are not computed alike")
    if not (len(geminis) == len(penalties) == len(n_features) == L):
        raise Violation(f"{label}: histories have lengths geminis={len(geminis)}, penalties={len(penalties)}, alphas={L}, "
                        f"n_features={len(n_features)}")
    mult = pa["alpha_multiplier"]
    if L:
        if alphas[0] != s["alpha"]:
            raise Violation(f"{label}: alphas[0] = {alphas[0]!r}, the model's alpha is {s['alpha']!r}")
        for i in range(L - 1):
            if alphas[i + 1] != alphas[i] * mult:
                raise Violation(f"{label}: alphas[{i + 1}] = {alphas[i + 1]!r} != alphas[{i}]*alpha_multiplier = {alphas[i] * mult!r}")
    # group the validation-score calls into steps by the alpha in force
    groups = []
    for c in calls:
        if not groups or groups[-1][0]["alpha"] != c["alpha"]:
            groups.append([c])
        else:
            groups[-1].append(c)
    if not groups or groups[0][0]["alpha"] != 0.0:
        raise Violation(f"{label}: the path did not start from an unpenalised (alpha=0) fit")
    initial = groups[0][-1]
    steps = groups[1:] if s["alpha"] > 0 else [groups[0][i:i + 1] for i in range(1, len(groups[0]))][:0]
    nan_abort = bool(steps) and math.isnan(steps[-1][-1]["score"])
    done = steps[:-1] if nan_abort else steps
    if s["alpha"] > 0:
        if len(done) != L:
            raise Violation(f"{label}: {len(done)} path steps were run but {L} are recorded in the histories")
        for i, g in enumerate(done):
            end = g[-1]
            if g[0]["alpha"] != alphas[i]:
                raise Violation(f"{label}: step {i} ran with alpha {g[0]['alpha']!r}, history says {alphas[i]!r}")
            if n_features[i] != end["nsel"]:
                raise Violation(f"{label}: n_features[{i}] = {n_features[i]} but the model had {end['nsel']} selected features at the end of that step")
            pen = float(np.linalg.norm(end["weights"][2 if len(end["weights"]) == 5 else 0], axis=1).sum())
            if abs(penalties[i] - pen) > 1e-12 * max(1.0, pen):
                raise Violation(f"{label}: group_lasso_penalties[{i}] = {penalties[i]!r}, the model's penalty at that step was {pen!r}")
            if not (geminis[i] == end["score"]):
                raise Violation(f"{label}: geminis[{i}] = {geminis[i]!r}, the validation score at the end of that step was {end['score']!r}")
        eff_min = pa["min_features"] if pa["min_features"] > 0 else 2
        if L and not nan_abort and n_features[-1] > eff_min:
            raise Violation(f"{label}: the path stopped with {n_features[-1]} features, min_features is {eff_min}")
        if not L and not nan_abort and initial["nsel"] > eff_min:
            raise Violation(f"{label}: no path step was run although {initial['nsel']} > min_features={eff_min} features are selected")
        kt = pa["keep_threshold"] if 0 <= pa["keep_threshold"] <= 1 else 0.9
        chosen = path_ref.best_step(initial["score"], [(g[-1]["score"], g[-1]["nsel"]) for g in done], kt, d)
        want = initial["weights"] if chosen < 0 else done[chosen][-1]["weights"]
        if len(best_weights) != len(want) or any(not np.array_equal(a, b) for a, b in zip(best_weights, want)):
            alt = [i for i, g in enumerate(done) if all(np.array_equal(a, b) for a, b in zip(best_weights, g[-1]["weights"]))]
            raise Violation(f"{label}: returned best weights are not those of the documented step ({'initial fit' if chosen < 0 else 'step ' + str(chosen)}); "
                            f"they match step(s) {alt}; scores {[g[-1]['score'] for g in done]}, initial {initial['score']}, "
                            f"features {[g[-1]['nsel'] for g in done]}, keep_threshold {kt}")
        if pa.get("restore_best_weights", True) and not s.get("dynamic", False):
            now = est._get_weights()
            if any(not np.array_equal(a, b) for a, b in zip(now, best_weights)):
                raise Violation(f"{label}: restore_best_weights is on (non-dynamic) but the estimator's weights are not the best weights")
            sel = np.sort(np.asarray(est.get_selection()))
            mine = np.array([i for i in range(d) if np.any(best_weights[2 if len(best_weights) == 5 else 0][i] != 0)])
            if not np.array_equal(sel, mine):
                raise Violation(f"{label}: after restoration get_selection() = {sel.tolist()}, best weights select {mine.tolist()}")
        if pa["min_features"] >= d and not any("min_features" in w for w in wrn):
            raise Violation(f"{label}: min_features >= number of features but no warning was given")
    else:
        chosen = -1
    mid = s["alpha"] > 0 and L >= 3 and 0 < chosen < L - 1
    return {"nontrivial": bool(mid), "classes": [s["cls"] + (":dynamic" if s.get("dynamic") else ""),
                                                "best:" + ("initial" if chosen < 0 else "last" if chosen == L - 1 else "first" if chosen == 0 else "middle"),
                                                "nan_abort" if nan_abort else "complete"],
            "counts": {"steps": L, "val_score_calls": len(calls)}, "note": {"alphas": list(alphas)[:6], "n_features": list(n_features)[:10]}}


def oracle_defaults(case):
    """Out-of-range argument == documented default passed explicitly (differential), plus a warning."""
    s = case["spec"]
    pa = dict(case["path"])
    which = case["which"]
    label = E.label(s) + f".path({pa})"
    X = E.build_data(s)
    est, y = E.build(s, X)
    est2, _ = E.build(s, X)
    pb = dict(pa)
    pb[which] = {"alpha_multiplier": 1.05, "keep_threshold": 0.9, "min_features": 2}[which]
    try:
        r1, c1, w1 = run_path(est, X, y, pa, s, label)
        r2, c2, w2 = run_path(est2, X, y, pb, s, label + " [explicit default]")
    except Violation:
        raise
    except Exception as e:
        raise Violation(f"{label}: path raised {type(e).__name__}: {e}")
    key = {"alpha_multiplier": "multiplier", "keep_threshold": "threshold", "min_features": "min_features"}[which]
    if not any(key in w for w in w1):
        raise Violation(f"{label}: out-of-range {which}={pa[which]} was not reported by a warning (warnings: {w1})")
    same = all(np.array_equal(a, b) for a, b in zip(r1[0], r2[0])) and all(
        np.array_equal(np.asarray(a, dtype=float), np.asarray(b, dtype=float), equal_nan=True) for a, b in zip(r1[1:], r2[1:]))
    if not same:
        raise Violation(f"{label}: behaves differently from the documented default {which}={pb[which]} passed explicitly: "
                        f"alphas {list(r1[3])[:5]} vs {list(r2[3])[:5]}, n_features {list(r1[4])[:8]} vs {list(r2[4])[:8]}")
    return {"nontrivial": len(r1[3]) >= 2, "classes": ["default:" + which], "counts": {"steps": len(r1[3])}}


def subs():
    return [Sub("deep_path", deep_path_case(), oracle_path, 1, 6, "fine paths of hundreds of steps x hundreds of epochs (weights shrink through 300 orders of magnitude)", shards=False),
            Sub("contract_wide", wide_path_case(), oracle_path, 40, 600, "the same contract on 257-384 features"),
            Sub("contract_grouped", grouped_path_case(), oracle_path, 300, 6000, "the same contract with multi-feature groups and long paths"),
            Sub("contract", path_case(), oracle_path, 700, 12000, "termination, histories, best weights, restoration"),
            Sub("defaults", path_case(defaults=True), oracle_defaults, 60, 800, "out-of-range arguments == documented defaults")]

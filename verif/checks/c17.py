"""C17 - results stay finite on degenerate and badly scaled but legal inputs."""
import warnings

import numpy as np
from hypothesis import strategies as st

from .. import estimators as E
from .. import gens
from ..harness import Sub, Violation
from ..spy import optimiser_spy

QUICK_SCALE = 4  # quick budgets below are multiplied by this (kept at about half a minute on 8 processes)
THOROUGH_SCALE = 10  # thorough budgets below are multiplied by this (about ten minutes on 16 processes)

RULE = ("the stated families only: features scaled by 1..1000 with offsets up to 5000, a constant column, a duplicated "
        "column, duplicated samples, n == n_clusters, n_clusters == 1, batch_size == 1; default learning rates; all "
        "estimators x GEMINIs x solvers; fit, path, predict_proba, score. Every gradient reaching the optimiser is "
        "inspected from outside. Non-trivial: at least one degenerate feature present and at least one parameter moved "
        "away from its initial value.")
ASSUMPTIONS = ["np.isfinite over _get_weights(), predict_proba, score, labels and path histories; a NaN/inf in any gradient "
               "handed to the optimiser is a violation even if later masked"]


@st.composite
def degenerate(draw):
    return {"scale": draw(st.sampled_from([1000.0, 1.0, 30.0, 1000.0, 0.001])), "offset": draw(st.sampled_from([0.0, 100.0, 5000.0, 0.0])),
            "const_col": draw(st.booleans()), "dup_col": draw(st.booleans()), "dup_rows": draw(st.booleans()),
            "n_eq_k": draw(st.booleans()), "k1": draw(st.integers(0, 5)) == 0, "batch1": draw(st.integers(0, 3)) == 0}


def apply_degenerate(s, dg, X):
    rs = np.random.RandomState(s["x"]["xseed"] + 5)
    X = X.copy()
    aff = s.get("aff")
    hav = bool(aff and aff["fam"] == "metric" and aff["name"] == "haversine")
    if not hav:
        X = X * dg["scale"] + dg["offset"]
    d = X.shape[1]
    if dg["const_col"]:
        X[:, rs.randint(d)] = X[0, 0]
    if dg["dup_col"] and d >= 2:
        a, b = rs.choice(d, size=2, replace=False)
        X[:, b] = X[:, a]
    if dg["dup_rows"] and len(X) >= 2:
        for _ in range(max(1, len(X) // 3)):
            a, b = rs.choice(len(X), size=2, replace=False)
            X[b] = X[a]
    if E._data_nonneg(s):
        X = np.abs(X)
    return np.ascontiguousarray(X)


@st.composite
def fit_case(draw, classes=None):
    s = draw(E.est_spec(classes=classes, n_max=10, d_max=4, iter_max=5, k_max=4, hidden_max=4, default_lr=True, n_min=2,
                        kernel_forms=("named", "callable"), metric_forms=("named", "callable")))
    dg = draw(degenerate())
    names = [a["name"] for a in (s.get("aff"), s.get("base_kernel"), (s.get("gemini") or {}).get("gs", {}).get("a")) if a]
    if any(nm in ("poly", "polynomial") for nm in names) or (s["cls"] == "KernelRIM" and s.get("reg", 0) > 0):
        # features growing like |x|^6 (polynomial kernels) or a kernel-weighted penalty on kernels of size 1e6 make
        # fixed-step gradient descent overflow legitimately: outside the families named by the property
        dg["scale"], dg["offset"] = 1.0, 0.0
        if s["x"]["xkind"] == "scaled":
            s["x"]["xkind"] = "normal"
    if dg["k1"]:
        s["n_clusters"] = 1
    if dg["n_eq_k"]:
        s["n"] = max(s["n_clusters"], 1)
    if dg["batch1"] and "batch_size" in s:
        s["batch_size"] = 1
    return {"spec": s, "dg": dg}


def finite(label, what, arr):
    a = np.asarray(arr, dtype=float)
    if not np.all(np.isfinite(a)):
        raise Violation(f"{label}: {what} contains non-finite values ({a.reshape(-1)[:6].tolist()}...)")


def run(case, use_path=False):
    s, dg = case["spec"], case["dg"]
    label = E.label(s) + f" on degenerate data {dg}"
    X = apply_degenerate(s, dg, E.build_data(s))
    est, y = E.build(s, X)
    init = {}
    seen = {"steps": 0}

    def on_step(opt, params, grads):
        seen["steps"] += 1
        if not init:
            init["w"] = [p.copy() for p in params]
        for i, g in enumerate(grads):
            if not np.all(np.isfinite(g)):
                raise Violation(f"{label}: a non-finite gradient for parameter #{i} reaches the optimiser at step {seen['steps']}")

    with warnings.catch_warnings(record=True) as wrn:
        warnings.simplefilter("always")
        with np.errstate(all="ignore"), optimiser_spy(on_step):
            try:
                if use_path:
                    out = est.path(X, y, **case["path"])
                else:
                    est.fit(X, y)
            except Violation:
                raise
            except Exception as e:
                raise Violation(f"{label}: {'path' if use_path else 'fit'} raised {type(e).__name__}: {e}")
            for i, w in enumerate(est._get_weights()):
                finite(label, f"learned parameter #{i}", w)
            P = est.predict_proba(X)
            finite(label, "predict_proba", P)
            sc = est.score(X, y) if y is not None else est.score(X)
            finite(label, "score", sc)
            if use_path:
                for nm, h in zip(("best weights", "geminis", "penalties", "alphas", "n_features"), out):
                    for part in (h if nm == "best weights" else [h]):
                        finite(label, f"path {nm}", part)
    if any("converged to nan" in str(w.message) for w in wrn):
        raise Violation(f"{label}: the path aborted because the GEMINI became NaN")
    moved = bool(init) and any(not np.array_equal(a, b) for a, b in zip(init["w"], est._get_weights()))
    present = dg["scale"] != 1.0 or dg["offset"] != 0.0 or dg["const_col"] or dg["dup_col"] or dg["dup_rows"] or dg["n_eq_k"] or dg["k1"] or dg["batch1"]
    tags = [k for k in ("const_col", "dup_col", "dup_rows", "n_eq_k", "k1", "batch1") if dg[k]] + [f"scale={dg['scale']}"]
    return {"nontrivial": bool(present and moved), "classes": [s["cls"]] + tags, "counts": {"steps": seen["steps"]}}


def oracle_fit(case):
    return run(case)


@st.composite
def path_case(draw):
    c = draw(fit_case(classes=E.SPARSE))
    c["spec"]["alpha"] = draw(st.sampled_from([0.5, 0.05, 5.0]))
    c["spec"]["max_iter"] = min(c["spec"]["max_iter"], 3)
    c["path"] = {"alpha_multiplier": draw(st.sampled_from([3.0, 10.0])), "min_features": draw(st.integers(1, 2)),
                 "max_patience": draw(st.integers(1, 2))}
    return c


def oracle_path(case):
    # default learning rate 1e-3 with alpha<=5 needs a long schedule on unit-scale data: the step bound of C07 applies
    return run(case, use_path=True)


@st.composite
def kauri_case(draw):
    s = draw(E.kauri_spec(n_max=16, d_max=4, kinds=("normal", "grid")))
    s["kernel"]["form"] = draw(st.sampled_from(["named", "callable"]))
    return {"spec": s, "dg": draw(degenerate())}


def oracle_kauri(case):
    s, dg = case["spec"], case["dg"]
    label = E.label(s) + f" on degenerate data {dg}"
    X = E.build_kauri_data(s) * dg["scale"] + dg["offset"]
    rs = np.random.RandomState(s["x"]["xseed"] + 5)
    if dg["const_col"]:
        X[:, rs.randint(X.shape[1])] = X[0, 0]
    if dg["dup_rows"] and len(X) >= 2:
        X[rs.randint(len(X))] = X[0]
    if s["kernel"]["name"] in gens.NONNEG_KERNELS:
        X = np.abs(X)
    if dg["k1"]:
        s = dict(s, max_clusters=1)
    est, y = E.build_kauri(s, X)
    with warnings.catch_warnings():
        warnings.simplefilter("ignore")
        with np.errstate(all="ignore"):
            try:
                est.fit(X, y)
                sc = est.score(X, y)
            except Exception as e:
                raise Violation(f"{label}: {type(e).__name__}: {e}")
    finite(label, "score", sc)
    finite(label, "gains", est.tree_.gains)
    return {"nontrivial": bool(len(np.unique(est.labels_)) >= 2), "classes": ["Kauri", f"scale={dg['scale']}"]}


def subs():
    fam = {"linear": ["LinearModel", "LinearMMD", "LinearWasserstein", "RIM", "KernelRIM"],
           "mlp": ["MLPModel", "MLPMMD", "MLPWasserstein"], "sparse": E.SPARSE, "categorical": E.CATEGORICAL, "douglas": ["Douglas"]}
    out = [Sub("fit_" + k, fit_case(classes=v), oracle_fit, 500, 12000, ", ".join(v)) for k, v in fam.items()]
    out.append(Sub("path_sparse", path_case(), oracle_path, 120, 3000, "paths of the sparse estimators"))
    out.append(Sub("kauri", kauri_case(), oracle_kauri, 400, 8000, "Kauri"))
    return out

"""C13 - GEMINI scores obey their invariances and bounds."""
import numpy as np
from hypothesis import strategies as st

from .. import gens, objs
from ..harness import Sub, Violation
from ..refs import gemini_ref as R

THOROUGH_SCALE = 4  # thorough budgets below are multiplied by this (about ten minutes on 16 processes)

RULE = ("metamorphic relations on generated (P, affinity): joint permutation of samples (rows of P, rows+columns of the "
        "affinity) and of clusters; appended empty cluster; closed-simplex inputs (one-hot rows, all-zero columns, "
        "sample-independent rows, balanced hard partitions). Non-trivial: non-identity permutation of both samples and "
        "clusters with n>=2 and a score above its floor / a closed-simplex input with at least one one-hot row.")
ASSUMPTIONS = ["value tolerance 1e-8*max(S,|v|) (MMD 1e-6*S); gradients compared after removing the per-row constant "
               "(the only freedom a gradient has along the simplex), at generic soft P for the piecewise-linear TV and "
               "Wasserstein objectives, and skipped where an MMD squared distance is within 1000 roundings of zero",
               "the empty-cluster relation is checked for predictions with entries >= 1e-4: epsilon clipping makes an "
               "'empty' column worth 1e-12, which the chi-square OvO ratio multiplies by 1/min(P)"]


def floor_of(base):
    return 0.5 if base == "chi2" else 0.0


def tangent(G):
    return G - G.mean(1, keepdims=True)


class _ArraySubclass(np.ndarray):
    """np.asarray of an instance is a base-class view of the same buffer (as for np.memmap)"""


def evaluate(g, P, A, label):
    if A is not None and len(P) <= 64 and isinstance(A, np.ndarray):
        # the affinity is handed over in a buffer-sharing container and stays the caller's: every evaluation of one relation
        # reads the same numbers
        keep = A.copy()
        A = A.copy().view(_ArraySubclass)
        try:
            g(P, A)
        except Exception as e:
            raise Violation(f"{label}: evaluating the score raised {type(e).__name__}: {e}")
        if not np.array_equal(np.asarray(A), keep):
            raise Violation(f"{label}: evaluating the score modified the caller's affinity matrix (an ndarray subclass)")
    try:
        v, gr = g(P, A, return_grad=True)
    except Exception as e:  # the objectives are total functions of (P, affinity) on the closed simplex
        raise Violation(f"{label}: evaluating the score and gradient raised {type(e).__name__}: {e} for P of shape {P.shape}")
    v = float(np.asarray(v))
    gr = np.asarray(gr, dtype=float)
    if not np.isfinite(v) or not np.all(np.isfinite(gr)):
        raise Violation(f"{label}: non-finite score ({v!r}) or gradient for P={P.tolist()}")
    if gr.shape != P.shape:
        raise Violation(f"{label}: gradient shape {gr.shape} != {P.shape}")
    return v, gr


# ------------------------------------------------------------------------------------------------ permutations
@st.composite
def perm_case(draw):
    gs = draw(objs.gemini_spec(foreign=True))
    big = draw(st.integers(0, 7)) == 0
    nmax = (24 if big else 10) if gs["base"] == "wasserstein" else (200 if big else 14)
    p = draw(gens.p_spec(pkinds=gens.STRUCTURED_P, n_min=1, n_max=nmax, k_max=32 if big else 6, scales=[0.05, 0.5, 2.0, 8.0, 20.0]))
    return {"g": gs, "p": p, "x": draw(gens.x_spec(kinds=gens.LOWLEVEL_KINDS)), "rseed": draw(gens.seeds)}


def oracle_perm(case):
    gs = case["g"]
    P = gens.build_P(case["p"], floor=0)
    n, K = P.shape
    X = gens.build_X(case["x"], n, nonneg=objs.gs_needs_nonneg(gs))
    g, A, label = objs.make_gemini(gs, X)
    rs = np.random.RandomState(case["rseed"])
    sp, cp = rs.permutation(n), rs.permutation(K)
    P2 = np.ascontiguousarray(P[sp][:, cp])
    A2 = None if A is None else np.ascontiguousarray(A[sp][:, sp])
    v1, g1 = evaluate(g, P, A, label)
    v2, g2 = evaluate(g, P2, A2, label)
    S = R.natural_scale(gs["base"], A)
    tol = R.score_tol(gs["base"], A, v1)
    if abs(v1 - v2) > 2 * tol:
        raise Violation(f"{label}: score {v1!r} becomes {v2!r} after permuting samples {sp.tolist()} and clusters "
                        f"{cp.tolist()} (tolerance {2 * tol:.3g})")
    compared = False
    structured = bool(case["p"].get("pkind"))
    generic = case["x"]["xkind"] not in ("grid", "line") and case["p"]["scale"] <= 2.0 and not structured and \
        (gs.get("a") is None or gs["a"]["form"] != "psd" or n <= 2)
    piecewise = gs["base"] in ("tv", "wasserstein")
    cond = R.mmd_condition(P, A, gs["ovo"]) if gs["base"] == "mmd" else 0.0
    if (generic or not piecewise) and cond <= 1e-3 and P.min() > 1e-12 and P.max() < 1 - 1e-12:
        t1 = tangent(g1)[sp][:, cp]
        t2 = tangent(g2)
        gscale = max(S, float(np.max(np.abs(t1))), abs(v1))
        gtol = (1e-7 + 8 * cond) * gscale
        if np.max(np.abs(t1 - t2)) > gtol:
            raise Violation(f"{label}: gradient is not permuted with the samples/clusters: max deviation "
                            f"{np.max(np.abs(t1 - t2))!r} (tolerance {gtol:.3g}), n={n}, K={K}")
        compared = True
    elif gs["base"] == "tv" and structured and P.min() > 1e-12 and P.max() < 1 - 1e-12:
        # exact ties (a kink of the total variation): reordering the samples may change a sum by one ulp and with it the side
        # of the kink, but relabelling the clusters alone performs the same arithmetic on the same numbers - the (sub)gradient
        # chosen at the tie must follow the clusters
        v3, g3 = evaluate(g, np.ascontiguousarray(P[:, cp]), A, label)
        t1 = tangent(g1)[:, cp]
        t3 = tangent(g3)
        gtol = 1e-7 * max(S, float(np.max(np.abs(t1))), abs(v1))
        if np.max(np.abs(t1 - t3)) > gtol:
            raise Violation(f"{label}: gradient is not permuted with the clusters {cp.tolist()} (samples left in place) at "
                            f"predictions with exact ties: max deviation {np.max(np.abs(t1 - t3))!r} (tolerance {gtol:.3g}), "
                            f"P={P.tolist() if P.size <= 24 else '...'}")
        compared = True
    nonid = (not np.array_equal(sp, np.arange(n))) and (not np.array_equal(cp, np.arange(K)))
    return {"nontrivial": bool(nonid and n >= 2 and v1 > floor_of(gs["base"]) + 1e-9 * S),
            "classes": [objs.gs_class(gs) + (":grad" if compared else ":value")], "counts": {"gradient_compared": int(compared)}}


# ------------------------------------------------------------------------------------------------ empty cluster
@st.composite
def empty_case(draw):
    gs = draw(objs.gemini_spec(foreign=True))
    nmax = 9 if gs["base"] == "wasserstein" else 12
    return {"g": gs, "p": draw(gens.p_spec(pkinds=gens.STRUCTURED_P, n_min=1, n_max=nmax, k_min=1, k_max=5, scales=[0.05, 0.5, 2.0])),
            "x": draw(gens.x_spec(kinds=gens.LOWLEVEL_KINDS)), "pos": draw(st.integers(0, 5))}


def oracle_empty(case):
    gs = case["g"]
    P = gens.build_P(case["p"], floor=1e-4)
    n, K = P.shape
    X = gens.build_X(case["x"], n, nonneg=objs.gs_needs_nonneg(gs))
    g, A, label = objs.make_gemini(gs, X)
    pos = min(case["pos"], K)
    P2 = np.insert(P, pos, 0.0, axis=1)
    keep = [j for j in range(K + 1) if j != pos]
    v1, g1 = evaluate(g, P, A, label)
    v2, g2 = evaluate(g, P2, A, label)
    S = R.natural_scale(gs["base"], A)
    tol = max(R.score_tol(gs["base"], A, v1), 1e-7 * S)
    if abs(v1 - v2) > tol:
        raise Violation(f"{label}: score {v1!r} becomes {v2!r} after adding an empty cluster at column {pos}")
    if np.any(g2[:, pos] != 0.0):
        raise Violation(f"{label}: the empty cluster receives a non-zero gradient {g2[:, pos].tolist()}")
    cond = R.mmd_condition(P, A, gs["ovo"]) if gs["base"] == "mmd" else 0.0
    compared = False
    generic = case["x"]["xkind"] != "grid"
    if cond <= 1e-3 and (generic or gs["base"] not in ("tv", "wasserstein")):
        d = g2[:, keep] - g1
        d = d - d.mean(1, keepdims=True)
        gscale = max(S, float(np.max(np.abs(tangent(g1)))), abs(v1))
        if np.max(np.abs(d)) > (1e-6 + 8 * cond) * gscale:
            raise Violation(f"{label}: gradients of the existing clusters change by {np.max(np.abs(d))!r} (beyond a "
                            f"per-sample constant) when an empty cluster is added")
        compared = True
    return {"nontrivial": bool(n >= 2 and K >= 2 and v1 > floor_of(gs["base"]) + 1e-9 * S),
            "classes": [objs.gs_class(gs)], "counts": {"gradient_compared": int(compared)}}


# ------------------------------------------------------------------------------------------------ bounds on the closed simplex
@st.composite
def closed_case(draw):
    gs = draw(objs.gemini_spec(foreign=True))
    nmax = 9 if gs["base"] == "wasserstein" else 12
    n = draw(st.integers(1, nmax))
    K = draw(st.integers(2, 5))
    rows = draw(st.lists(st.sampled_from(["onehot", "soft", "sparse", "uniform"]), min_size=n, max_size=n))
    dead = draw(st.lists(st.booleans(), min_size=K, max_size=K))
    if all(dead):
        dead[0] = False
    return {"g": gs, "n": n, "K": K, "rows": rows, "dead": dead, "pseed": draw(gens.seeds), "x": draw(gens.x_spec(kinds=gens.LOWLEVEL_KINDS)),
            "same_rows": draw(st.booleans())}


def build_closed(case):
    rs = np.random.RandomState(case["pseed"])
    n, K = case["n"], case["K"]
    alive = [k for k in range(K) if not case["dead"][k]]
    P = np.zeros((n, K))
    for i, kind in enumerate(case["rows"]):
        if kind == "onehot":
            P[i, alive[rs.randint(len(alive))]] = 1.0
        elif kind == "uniform":
            P[i, alive] = 1.0 / len(alive)
        elif kind == "sparse":
            sub = [k for k in alive if rs.rand() < 0.5] or [alive[0]]
            P[i, sub] = rs.dirichlet(np.ones(len(sub)))
        else:
            P[i, alive] = rs.dirichlet(np.ones(len(alive)) * rs.choice([0.2, 1.0, 5.0]))
    if case["same_rows"]:
        P[:] = P[0]
    return P


def oracle_closed(case):
    gs = case["g"]
    P = build_closed(case)
    n, K = P.shape
    X = gens.build_X(case["x"], n, nonneg=objs.gs_needs_nonneg(gs))
    g, A, label = objs.make_gemini(gs, X)
    v, gr = evaluate(g, P, A, label)
    S = R.natural_scale(gs["base"], A)
    base = gs["base"]
    tol = 1e-6 * S if base == "mmd" else 1e-8 * S
    fl = floor_of(base)
    if v < fl - tol:
        raise Violation(f"{label}: score {v!r} below its floor {fl} for P={P.tolist()}")
    if base in ("tv", "hellinger") and v > 1 + 1e-9:
        raise Violation(f"{label}: score {v!r} exceeds 1 for P={P.tolist()}")
    if case["same_rows"] and abs(v - fl) > tol:
        raise Violation(f"{label}: predictions do not depend on the sample but the score is {v!r}, not {fl}")
    onehot = any(k == "onehot" for k in case["rows"])
    return {"nontrivial": bool(onehot and n >= 2), "classes": [objs.gs_class(gs) + (":same_rows" if case["same_rows"] else ":mixed")]}


# ------------------------------------------------------------------------------------------------ MI of a balanced hard partition
@st.composite
def hard_case(draw):
    return {"K": draw(st.integers(2, 8)), "m": draw(st.integers(1, 6)), "extra_empty": draw(st.integers(0, 2)),
            "rseed": draw(gens.seeds), "via": draw(st.sampled_from(["MI", "KLGEMINI", "name:mi", "name:kl_ova", "KLGEMINI:reconfigured"]))}


def oracle_hard(case):
    import gemclus.gemini as G
    from gemclus.gemini._utils import _str_to_gemini
    K, m = case["K"], case["m"]
    n = K * m
    rs = np.random.RandomState(case["rseed"])
    labels = rs.permutation(np.repeat(np.arange(K), m))
    P = np.zeros((n, K + case["extra_empty"]))
    P[np.arange(n), labels] = 1.0
    g = {"MI": lambda: G.MI(), "KLGEMINI": lambda: G.KLGEMINI(ovo=False), "name:mi": lambda: _str_to_gemini("mi"),
         "name:kl_ova": lambda: _str_to_gemini("kl_ova"), "KLGEMINI:reconfigured": lambda: G.KLGEMINI(ovo=True)}[case["via"]]()
    if case["via"] == "KLGEMINI:reconfigured":
        # used one-vs-one first, then switched to one-vs-all through its public attribute
        g(rs.dirichlet(np.ones(3), size=5), None, return_grad=bool(case["m"] % 2))
        g.ovo = False
    v, gr = evaluate(g, P, None, case["via"])
    if abs(v - np.log(K)) > 1e-9:
        raise Violation(f"{case['via']}: mutual information of a balanced hard {K}-partition of {n} samples is {v!r}, "
                        f"expected log K = {np.log(K)!r}")
    return {"nontrivial": True, "classes": [f"K={K}"]}


@st.composite
def huge_perm_case(draw):
    gs = draw(objs.gemini_spec(foreign=True, bases=("tv", "kl", "mmd", "hellinger", "chi2"), kernel_forms=("named",)))
    p = draw(gens.p_spec(n_min=1025, n_max=2600, k_min=2, k_max=5, scales=[0.5, 2.0, 8.0]))
    return {"g": gs, "p": p, "x": draw(gens.x_spec(d_max=2, kinds=("normal",))), "rseed": draw(gens.seeds)}


@st.composite
def huge_nk_perm_case(draw):
    gs = draw(objs.gemini_spec(foreign=True, bases=("tv", "kl", "hellinger", "chi2", "mmd"), kernel_forms=("named",)))
    p = draw(gens.p_spec(n_min=660, n_max=1700, k_min=26, k_max=48, scales=[0.5, 2.0, 8.0]))
    return {"g": gs, "p": p, "x": draw(gens.x_spec(d_max=2, kinds=("normal",))), "rseed": draw(gens.seeds)}


@st.composite
def wass_large_perm_case(draw):
    gs = draw(objs.gemini_spec(foreign=True, bases=("wasserstein",), metric_forms=("named", "randdist", "foreign")))
    p = draw(gens.p_spec(pkinds=gens.STRUCTURED_P, n_min=40, n_max=150, k_min=2, k_max=6, scales=[0.5, 2.0, 8.0]))
    return {"g": gs, "p": p, "x": draw(gens.x_spec(d_max=3, kinds=("normal", "grid"))), "rseed": draw(gens.seeds)}


def subs():
    return [
        Sub("wasserstein_large_permutation", wass_large_perm_case(), oracle_perm, 80, 2000, "permutation invariance of Wasserstein on 40-150 samples"),
        Sub("huge_nk_permutation", huge_nk_perm_case(), oracle_perm, 40, 500, "permutation invariance, n*K^2 beyond 2^20"),
        Sub("huge_permutation", huge_perm_case(), oracle_perm, 120, 1200, "permutation invariance for n in (1024, 2600]"),
        Sub("permutation", perm_case(), oracle_perm, 4000, 80000, "joint permutation of samples and clusters"),
        Sub("empty_cluster", empty_case(), oracle_empty, 3000, 60000, "appended empty cluster"),
        Sub("closed_simplex", closed_case(), oracle_closed, 4000, 80000, "bounds / finiteness on the closed simplex"),
        Sub("hard_partition", hard_case(), oracle_hard, 600, 5000, "MI of a balanced hard partition = log K"),
    ]

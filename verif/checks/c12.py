"""C12 - fitting is reproducible, history-independent and free of side effects (stateful / model-based testing)."""
import copy
import types
import warnings

import numpy as np
from hypothesis import strategies as st
from hypothesis.stateful import RuleBasedStateMachine, initialize, invariant, precondition, rule
from sklearn.base import clone

from .. import estimators as E
from .. import gens
from ..harness import KnownFinding, Sub, Violation

QUICK_SCALE = 2  # quick budgets below are multiplied by this (kept at about half a minute on 8 processes)
THOROUGH_SCALE = 2  # thorough budgets below are multiplied by this (about ten minutes on 16 processes)

RULE = ("Hypothesis RuleBasedStateMachine, one estimator per machine (all 18 + must-link/cannot-link decorated variants), "
        "three datasets; rules = public calls fit, fit_predict, predict, predict_proba, score, path, set_params (valid "
        "change), clone, and probe rules that take a clone first, run the operation on the reference dataset twice in a "
        "row on the live object and once on the clone, and compare every fitted attribute of the three runs; invariants "
        "after every rule: caller arrays bit-identical, get_params unchanged by fit/predict/score, clone and "
        "set_params(**get_params()) round-trip. Non-trivial: a probe preceded by >=2 other calls including a fit on another "
        "dataset or a path.")
ASSUMPTIONS = ["integer random_state everywhere; a clone of a decorated model is decorated again with the same constraints "
               "(decoration lives on the instance, not in the hyper-parameters)",
               "fitted state = every attribute ending in '_' (arrays compared with array_equal, Kauri tree arrays included) "
               "plus the five outputs of path"]

PATH_ARGS = {"alpha_multiplier": 3.0, "min_features": 1, "max_patience": 1}


def fitted_state(est):
    out = {}
    for k, v in vars(est).items():
        if not k.endswith("_") or k.startswith("__"):
            continue
        if k == "optimiser_":
            out[k] = (type(v).__name__, float(v.learning_rate), float(getattr(v, "t", 0)))
        elif k == "tree_":
            t = v
            out[k] = (list(t.children_left), list(t.children_right), list(t.target), list(t.thresholds), list(t.features),
                      [float(g) for g in t.gains], list(t.depths), t.n_nodes)
        elif k == "cut_points_list_":
            out[k] = [(i, np.array(c, copy=True)) for i, c in v]
        elif isinstance(v, np.ndarray):
            out[k] = v.copy()
        elif isinstance(v, (list, tuple, int, float, str, type(None))):
            out[k] = copy.deepcopy(v)
    return out


def same(a, b):
    if isinstance(a, np.ndarray) or isinstance(b, np.ndarray):
        return isinstance(a, np.ndarray) and isinstance(b, np.ndarray) and a.shape == b.shape and np.array_equal(a, b, equal_nan=True)
    if isinstance(a, (list, tuple)) and isinstance(b, (list, tuple)):
        return len(a) == len(b) and all(same(x, y) for x, y in zip(a, b))
    if isinstance(a, float) and isinstance(b, float) and a != a and b != b:
        return True
    return a == b


def diff_states(sa, sb):
    keys = sorted(set(sa) | set(sb))
    return [k for k in keys if k not in sa or k not in sb or not same(sa[k], sb[k])]


def canon(v):
    """nested containers with arrays / ranges inside, in a form that == can compare (types kept: a list that became an array
    is a change)"""
    if isinstance(v, np.ndarray):
        return ("ndarray", str(v.dtype), v.shape, v.tolist())
    if isinstance(v, range):
        return ("range", v.start, v.stop, v.step)
    if isinstance(v, (list, tuple)):
        return (type(v).__name__, [canon(x) for x in v])
    if isinstance(v, dict):
        return ("dict", sorted((str(k), canon(x)) for k, x in v.items()))
    return v


def params_snapshot(est):
    snap = {}
    for k, v in est.get_params(deep=False).items():
        snap[k] = v.copy() if isinstance(v, np.ndarray) else (copy.deepcopy(v) if isinstance(v, (list, dict)) else v)
    return snap


def params_equal(a, b):
    if set(a) != set(b):
        return False
    for k in a:
        x, y = a[k], b[k]
        if isinstance(x, np.ndarray) or isinstance(y, np.ndarray):
            if not (isinstance(x, np.ndarray) and isinstance(y, np.ndarray) and np.array_equal(x, y)):
                return False
        elif isinstance(x, (list, dict)):
            if type(x) is not type(y) or canon(x) != canon(y):
                return False
        elif x is not y and x != y:
            # sklearn's clone deep-copies parameters that are not estimators (e.g. a GEMINI instance): same type and
            # same attribute values is what a round trip can preserve
            if isinstance(x, (types.FunctionType, types.BuiltinFunctionType)) or type(x) is not type(y) \
                    or not hasattr(x, "__dict__") or not params_equal(vars(x), vars(y)):
                return False
    return True


class History:
    """Interpreter of a call history; used by the state machine and by --replay."""

    def __init__(self, spec, mlcl):
        self.spec, self.mlcl = spec, mlcl
        self.kauri = spec["cls"] == "Kauri"
        self.label = E.label(spec) + (f" decorated {mlcl}" if mlcl else "")
        self.data = []
        for j, (dn, dd) in enumerate([(0, 0), (2, 0), (1, 1)]):
            s2 = dict(spec)
            s2["x"] = dict(spec["x"], xseed=spec["x"]["xseed"] + 17 * j)
            s2["n"] = spec["n"] + dn
            if dd and not (spec.get("aff") and spec["aff"].get("name") == "haversine"):
                s2["d"] = spec["d"] + dd
                s2["x"]["d"] = s2["d"]
                if s2.get("feature_mask") is not None:
                    s2["feature_mask"] = list(s2["feature_mask"]) + [True] * dd
                if s2.get("groups") is not None:
                    pass
            X = E.build_kauri_data(s2) if self.kauri else E.build_data(s2)
            y = self.affinity_for(s2, X)
            self.data.append({"X": X, "y": y, "Xc": X.copy(), "yc": None if y is None else y.copy(), "spec": s2})
        self.est = self.make(spec)
        self.ops = 0
        self.other_fit = False
        self.path_before = False
        self.fitted_d = None
        self.probes = 0
        self.nontrivial_probes = 0

    def affinity_for(self, s2, X):
        if self.kauri:
            return E.kauri_ref_kernel(s2, X) if s2["kernel"]["form"] in ("precomputed", "psd", "indef") else None
        if not E.uses_precomputed(s2):
            return None
        a = s2.get("aff") or s2["gemini"]["gs"]["a"]
        return gens.ref_affinity_for_form(a, X)

    def make(self, spec):
        est = (E.build_kauri(spec, self.data[0]["X"]) if self.kauri else E.build(spec, self.data[0]["X"]))[0]
        return self.decorate(est)

    def decorate(self, est):
        if self.mlcl:
            from gemclus import add_mlcl_constraint
            add_mlcl_constraint(est, self.mlcl["ml"] or None, self.mlcl["cl"] or None, self.mlcl["factor"])
        return est

    def fresh_clone(self):
        return self.decorate(clone(self.est))

    def call(self, what, f, *a, **k):
        with warnings.catch_warnings():
            warnings.simplefilter("ignore")
            with np.errstate(all="ignore"):
                return f(*a, **k)

    # ------------------------------------------------------------------------------------------------ operations
    def compatible(self, j):
        if self.spec["cls"] == "Douglas" and self.spec.get("feature_mask") is not None and j == 2:
            return False  # mask length is tied to the number of features
        if self.spec.get("groups") is not None and j == 2:
            return True
        return True

    def apply(self, step):
        op = step["op"]
        self.ops += 1
        est = self.est
        before = params_snapshot(est)
        D = self.data[step.get("ds", 0)]
        try:
            if op in ("fit", "fit_predict"):
                if not self.compatible(step["ds"]):
                    return
                getattr(est, op)(*(self._args(D)))
                self.fitted_d = D["X"].shape[1]
                if step["ds"] != 0:
                    self.other_fit = True
            elif op in ("predict", "predict_proba", "score"):
                if self.fitted_d is None or D["X"].shape[1] != self.fitted_d:
                    return
                if op == "score":
                    self.call(op, est.score, *(self._args(D)))
                elif op == "predict_proba" and self.kauri:
                    return
                else:
                    self.call(op, getattr(est, op), D["X"])
            elif op == "fit_no_matrix":
                # Kauri with kernel='precomputed' called without the matrix: a documented fall-back (warning + linear kernel)
                if not (self.kauri and self.spec["kernel"]["form"] in ("precomputed", "psd", "indef")):
                    return
                self.call(op, est.fit, D["X"])
                self.fitted_d = D["X"].shape[1]
                # the documented fall-back (linear kernel) is the same for an object with a history and for a fresh clone
                c = self.fresh_clone()
                self.call(op, c.fit, D["X"])
                dd = diff_states(fitted_state(est), fitted_state(c))
                if dd:
                    raise Violation(f"{self.label}: fit without the kernel matrix on the object with a call history differs from the "
                                    f"same call on a fresh clone in {dd} (after {self.ops - 1} earlier calls)")
                op = "fit"
            elif op == "path":
                if self.spec["cls"] not in E.SPARSE or not self.compatible(step["ds"]):
                    return
                self.call(op, est.path, *(self._args(D)), **PATH_ARGS)
                self.fitted_d = D["X"].shape[1]
                self.path_before = True
            elif op == "set_params":
                changes = {step["name"]: step["value"]}
                if step["name"] in ("kernel", "metric", "base_kernel") and not self.kauri:
                    changes[step["name"] + "_params"] = None  # parameters of the previous kernel do not fit the new one
                est.set_params(**changes)
                self.note_param(step["name"], step["value"])
                return
            elif op == "mutate_data":
                # the caller rewrites its own array in place between calls (same object, new content)
                rs = np.random.RandomState(step["seed"])
                X = D["X"]
                new = X[rs.permutation(len(X))] * (1.0 + 0.5 * rs.rand()) + 0.1 * rs.randn(*X.shape)
                if np.all(X >= 0):
                    new = np.abs(new)
                if self.spec.get("aff") and self.spec["aff"].get("name") == "haversine":
                    new = np.clip(new, -1.5, 1.5)
                X[:] = new
                D["Xc"] = X.copy()
                if D["y"] is not None:
                    new_y = self.affinity_for(D["spec"], X)
                    if new_y is None:  # the estimator no longer uses a precomputed affinity (set_params changed it)
                        D["y"], D["yc"] = None, None
                    else:
                        D["y"][:] = new_y
                        D["yc"] = D["y"].copy()
                return
            elif op == "clone":
                self.est = self.fresh_clone()
                self.fitted_d = None
                return
            elif op == "probe_fit":
                self.probe(False)
                return
            elif op == "probe_path":
                if self.spec["cls"] in E.SPARSE:
                    self.probe(True)
                return
        except Violation:
            raise
        except Exception as e:
            if op in ("fit", "fit_predict", "path"):
                raise Violation(f"{self.label}: {op} on dataset {step.get('ds')} raised {type(e).__name__}: {e} after {self.ops - 1} earlier calls")
            return  # predict/score on incompatible data may legitimately raise
        if op in ("fit", "fit_predict", "predict", "predict_proba", "score") and not params_equal(before, params_snapshot(est)):
            changed = [k for k in before if not params_equal({k: before[k]}, {k: est.get_params(deep=False)[k]})]
            raise Violation(f"{self.label}: {op} modified the hyper-parameters {changed}")

    def note_param(self, name, value):
        """Keeps the harness's own description of the estimator in step with set_params."""
        sp = dict(self.spec)
        if name in ("kernel", "metric") and "aff" in sp:
            sp["aff"] = dict(sp["aff"], name=value, params={})
        elif name in ("kernel_params", "metric_params", "base_kernel_params"):
            pass
        elif name == "kernel" and self.kauri:
            sp["kernel"] = dict(sp["kernel"], name=value)
        elif name == "base_kernel":
            sp["base_kernel"] = dict(sp["base_kernel"], name=value, params={})
        elif name == "gemini":
            sp["gemini"] = {"kind": "none"} if value is None else {"kind": "name", "name": value}
        else:
            sp[name] = value
        self.spec = sp
        for D in self.data:
            D["spec"] = dict(D["spec"], **{k: sp[k] for k in ("aff", "kernel", "base_kernel", "gemini") if k in sp})

    def _args(self, D):
        with warnings.catch_warnings():
            warnings.simplefilter("ignore")
            return (D["X"], D["y"]) if D["y"] is not None else (D["X"],)

    def probe(self, use_path):
        D = self.data[0]
        c = self.fresh_clone()
        runs = []
        for who in (self.est, self.est, c):
            if use_path:
                out = self.call("path", who.path, *(self._args(D)), **PATH_ARGS)
                st_ = fitted_state(who)
                st_["path:best_weights"] = [w.copy() for w in out[0]]
                for nm, v in zip(("geminis", "penalties", "alphas", "n_features"), out[1:]):
                    st_["path:" + nm] = [float(x) for x in v]
            else:
                self.call("fit", who.fit, *(self._args(D)))
                st_ = fitted_state(who)
            runs.append(st_)
        self.fitted_d = D["X"].shape[1]
        what = "path" if use_path else "fit"
        d01 = diff_states(runs[0], runs[1])
        if d01:
            raise Violation(f"{self.label}: running {what} twice in a row on the same object and data gives different "
                            f"results in {d01} (after {self.ops - 1} earlier calls)")
        d02 = diff_states(runs[0], runs[2])
        if d02:
            raise Violation(f"{self.label}: {what} on the object with a call history differs from {what} on a fresh clone in {d02} "
                            f"(after {self.ops - 1} earlier calls)")
        self.probes += 1
        if self.ops >= 3 and (self.other_fit or self.path_before):
            self.nontrivial_probes += 1
        if use_path:
            self.path_before = True

    # ------------------------------------------------------------------------------------------------ invariants
    def check_invariants(self):
        for j, D in enumerate(self.data):
            if not np.array_equal(D["X"], D["Xc"]):
                raise Violation(f"{self.label}: the caller's data array of dataset {j} was modified")
            if D["y"] is not None and not np.array_equal(D["y"], D["yc"]):
                raise Violation(f"{self.label}: the caller's affinity matrix of dataset {j} was modified")
        est = self.est
        p = params_snapshot(est)
        c = clone(est)
        if not params_equal(p, params_snapshot(c)):
            raise Violation(f"{self.label}: clone does not reproduce the hyper-parameters")
        c2 = type(est)()
        c2.set_params(**est.get_params(deep=False))
        if not params_equal(p, params_snapshot(c2)):
            raise Violation(f"{self.label}: set_params(**get_params()) does not round-trip the hyper-parameters")


# ----------------------------------------------------------------------------------------------------------------------
SETTABLE = {"max_iter": [1, 2, 3], "learning_rate": [0.01, 0.1, 0.3], "solver": ["sgd", "adam"], "random_state": [0, 7, 123]}
KAURI_SETTABLE = {"max_depth": [None, 1, 3], "max_leaves": [None, 2, 5], "random_state": [0, 7, 123], "max_clusters": [1, 2, 4]}


@st.composite
def machine_spec(draw, classes=None):
    if classes == ["Kauri"]:
        s = draw(E.kauri_spec(n_max=12, d_max=3))
        return {"spec": s, "mlcl": None}
    s = draw(E.est_spec(classes=classes, n_max=9, d_max=3, iter_max=2, k_max=3, hidden_max=3, n_min=3,
                        kernel_forms=("named", "precomputed", "callable"), metric_forms=("named", "precomputed", "callable")))
    if s["cls"] in E.SPARSE:
        s["alpha"] = draw(st.sampled_from([0.5, 2.0, 0.1]))
    from .c03 import mlcl_arg
    mlcl = draw(mlcl_arg(s["n"])) if draw(st.integers(0, 3)) == 0 else None
    return {"spec": s, "mlcl": mlcl}


def settable_for(spec):
    cls = spec["cls"]
    if cls == "Kauri":
        t = dict(KAURI_SETTABLE)
        if spec["kernel"]["form"] == "named" and spec["kernel"]["name"] not in gens.NONNEG_KERNELS:
            t["kernel"] = ["linear", "rbf", "cosine"]
        return t
    t = dict(SETTABLE)
    if cls not in E.NO_BATCH_ARG:
        t["batch_size"] = [None, 1, 2, 5]
    if cls in E.GENERIC:
        t["gemini"] = ["mmd_ova", "mi", "tv_ovo", "wasserstein_ova", None]
    if cls in E.MMD_CLASSES:
        t["ovo"] = [False, True]
        if spec["aff"]["form"] == "named" and spec["aff"]["name"] not in gens.NONNEG_KERNELS:
            t["kernel"] = ["linear", "rbf", "laplacian", "cosine"]
            t["kernel_params"] = [None]
    if cls in E.WASS_CLASSES:
        t["ovo"] = [False, True]
        if spec["aff"]["form"] == "named" and spec["aff"]["name"] != "haversine":
            t["metric"] = ["euclidean", "manhattan", "cosine"]
            t["metric_params"] = [None]
    if cls in ("RIM", "KernelRIM"):
        t["reg"] = [0.0, 0.1, 1.0]
    if cls == "KernelRIM" and spec["base_kernel"]["form"] == "named" and spec["base_kernel"]["name"] not in gens.NONNEG_KERNELS:
        t["base_kernel"] = ["linear", "rbf", "laplacian", "cosine"]
        t["base_kernel_params"] = [None]
    if cls in E.MLPS:
        t["n_hidden_dim"] = [1, 2, 4]
    if cls in E.SPARSE:
        t["alpha"] = [0.1, 0.5, 2.0]
        d = spec["d"]
        t["groups"] = [None] + ([[[0, d - 1]], [[d - 1], list(range(d - 1))]] if d >= 2 else [[[0]]])
    if cls in ("SparseMLPModel", "SparseMLPMMD"):
        t["M"] = [0.1, 1.0, 10.0]
    if cls == "Douglas":
        t["n_cuts"] = [1, 2]
        t["temperature"] = [0.1, 1.0]
    return {k: v for k, v in t.items() if v}


def step_strategy(spec, changes_only=False):
    kauri = spec["cls"] == "Kauri"
    table = settable_for(spec)
    def param_step(names):
        return st.sampled_from(sorted(names)).flatmap(
            lambda n: st.sampled_from(table[n]).map(lambda v: {"op": "set_params", "name": n, "value": v}))

    generic = [n for n in table if n in SETTABLE or n in KAURI_SETTABLE]
    specific = [n for n in table if n not in generic] or generic
    sp = param_step(generic)
    sp2 = param_step(specific)
    if changes_only:
        return st.one_of(sp, sp2, sp2, st.builds(lambda z: {"op": "mutate_data", "ds": 0, "seed": z}, st.integers(0, 1000)))
    ds = st.integers(0, 2)
    ops = [st.builds(lambda d: {"op": "fit", "ds": d}, ds), st.builds(lambda d: {"op": "fit_predict", "ds": d}, ds),
           st.builds(lambda d: {"op": "predict", "ds": d}, ds), st.builds(lambda d: {"op": "predict_proba", "ds": d}, ds),
           st.builds(lambda d: {"op": "score", "ds": d}, ds), sp, sp2, sp2, st.just({"op": "clone"}), st.just({"op": "probe_fit"}),
           st.just({"op": "probe_fit"}), st.just({"op": "mutate_data", "ds": 0, "seed": 3}),
           st.builds(lambda d, z: {"op": "mutate_data", "ds": d, "seed": z}, ds, st.integers(0, 1000))]
    if spec["cls"] in E.SPARSE:
        ops += [st.builds(lambda d: {"op": "path", "ds": d}, ds), st.just({"op": "probe_path"})]
    if kauri:
        ops += [st.builds(lambda d: {"op": "fit_no_matrix", "ds": d}, ds)] * 2
    return st.one_of(*ops)


def interpret(case):
    """Replay entry point: executes a recorded history with all invariants."""
    h = History(case["spec"], case.get("mlcl"))
    h.check_invariants()
    for step in case["steps"]:
        h.apply(step)
        h.check_invariants()
    return {"nontrivial": h.nontrivial_probes > 0, "classes": [case["spec"]["cls"] + (":mlcl" if case.get("mlcl") else "")],
            "counts": {"steps": len(case["steps"]), "probes": h.probes, "probes_after_history": h.nontrivial_probes}}


def machine_factory(hook, classes=None):
    class Machine(RuleBasedStateMachine):
        def __init__(self):
            super().__init__()
            hook("start", None, None)
            self.h = None
            self.case = None

        @initialize(ms=machine_spec(classes))
        def setup(self, ms):
            self.case = {"spec": ms["spec"], "mlcl": ms["mlcl"], "steps": []}
            self.step_strat = step_strategy(ms["spec"])  # fixed per machine: generation must not depend on run-time state
            self.change_strat = step_strategy(ms["spec"], changes_only=True)
            try:
                self.h = History(ms["spec"], ms["mlcl"])
            except ValueError:
                self.h = None  # constraint set rejected by add_mlcl_constraint (C14's subject)

        def _do(self, step):
            if self.h is None:
                return
            self.case["steps"].append(step)
            try:
                self.h.apply(step)
                self.h.check_invariants()
            except Violation as v:
                hook("violation", self.case, v)
                raise
            except KnownFinding as k:
                hook("known", self.case, k)

        @rule(data=st.data())
        def step(self, data):
            if self.h is None:
                return
            self._do(data.draw(self.step_strat))

        @rule()
        def probe(self):
            self._do({"op": "probe_fit"})

        @rule(data=st.data())
        def change_then_probe(self, data):
            """fit, then a hyper-parameter change or an in-place rewrite of the caller's array, then the probe"""
            if self.h is None:
                return
            self._do({"op": "fit", "ds": 0})
            self._do(data.draw(self.change_strat))
            self._do({"op": "probe_fit"})

        @precondition(lambda self: self.h is not None and self.h.spec["cls"] in E.SPARSE)
        @rule()
        def probe_path(self):
            self._do({"op": "probe_path"})

        def teardown(self):
            if self.h is not None and self.case is not None:
                h = self.h
                hook("done", self.case, {"nontrivial": h.nontrivial_probes > 0,
                                         "classes": [self.case["spec"]["cls"] + (":mlcl" if self.case["mlcl"] else "")],
                                         "counts": {"steps": len(self.case["steps"]), "probes": h.probes,
                                                    "probes_after_history": h.nontrivial_probes}})

    return Machine


# ------------------------------------------------------------------------------------------------ single-call side effects
@st.composite
def side_case(draw):
    if draw(st.integers(0, 7)) == 0:
        return {"spec": draw(E.kauri_spec(n_max=14, d_max=3))}
    s = draw(E.est_spec(n_max=9, d_max=3, iter_max=2, k_max=3, hidden_max=3, n_min=3,
                        kernel_forms=("named", "precomputed", "callable"), metric_forms=("named", "precomputed", "callable")))
    if s["cls"] in E.SPARSE:
        s["alpha"] = draw(st.sampled_from([0.5, 2.0, 0.1]))
    return {"spec": s, "path": draw(st.booleans()), "nan_after": draw(st.one_of(st.none(), st.none(), st.integers(2, 9)))}


def deep_params(est):
    """hyper-parameters with nested containers / GEMINI instances expanded, for a deep before/after comparison"""
    out = {}
    for k, v in est.get_params(deep=False).items():
        if isinstance(v, np.ndarray):
            out[k] = ("array", v.copy())
        elif isinstance(v, (dict, list)):
            out[k] = ("container", copy.deepcopy(v))
        elif hasattr(v, "__dict__") and not isinstance(v, (types.FunctionType, types.BuiltinFunctionType)) and not isinstance(v, np.random.RandomState):
            out[k] = ("object", type(v).__name__, copy.deepcopy({a: b for a, b in vars(v).items() if not callable(b)}))
        else:
            out[k] = ("value", v)
    return out


def deep_changed(a, b):
    ch = []
    for k in a:
        x, y = a[k], b.get(k)
        if y is None or x[0] != y[0]:
            ch.append(k)
        elif x[0] == "array":
            if not np.array_equal(x[1], y[1]):
                ch.append(k)
        elif x[0] == "value":
            if not (x[1] is y[1] or x[1] == y[1]):
                ch.append(k)
        elif canon(list(x[1:])) != canon(list(y[1:])):
            ch.append(k)
    return ch


def oracle_side(case):
    """one fit / fit_predict / predict / predict_proba / score / path each: hyper-parameters (nested dictionaries and GEMINI
    instances included) and the caller's arrays must come out untouched"""
    s = case["spec"]
    kauri = s["cls"] == "Kauri"
    label = E.label(s)
    X = E.build_kauri_data(s) if kauri else E.build_data(s)
    est, y = (E.build_kauri(s, X) if kauri else E.build(s, X))
    Xc = X.copy()
    yc = None if y is None else np.array(y, copy=True)
    before = deep_params(est)
    ops = ["fit", "predict", "score", "fit_predict"] + ([] if kauri else ["predict_proba"])
    if s["cls"] in E.SPARSE and case.get("path"):
        ops.append("path")
    with warnings.catch_warnings():
        warnings.simplefilter("ignore")
        with np.errstate(all="ignore"):
            for op in ops:
                try:
                    if op in ("fit", "fit_predict", "score"):
                        getattr(est, op)(X, y) if y is not None else getattr(est, op)(X)
                    elif op == "path":
                        if case.get("nan_after") and not (s.get("gemini") or {}).get("kind") == "instance":
                            # the path may also end through its NaN branch (objective turning NaN after some evaluations)
                            from .c07 import poison
                            poison(est, case["nan_after"])
                        est.path(X, y, **PATH_ARGS)
                    else:
                        getattr(est, op)(X)
                except Exception as e:
                    raise Violation(f"{label}: {op} raised {type(e).__name__}: {e}")
                ch = deep_changed(before, deep_params(est))
                if ch:
                    raise Violation(f"{label}: {op} modified the hyper-parameters {ch} (nested dictionaries / objects included)")
                if not np.array_equal(X, Xc) or (y is not None and not np.array_equal(y, yc)):
                    raise Violation(f"{label}: {op} modified the caller's data or affinity array")
    nested = any(v[0] in ("container", "object", "array") for v in before.values())
    return {"nontrivial": bool(nested), "classes": [s["cls"]]}


def subs():
    return [Sub("single_call_side_effects", side_case(), oracle_side, 1500, 25000,
                "one call of each public method: deep comparison of hyper-parameters and caller arrays")] + _subs()


def _subs():
    fam = {"linear": ["LinearModel", "LinearMMD", "LinearWasserstein", "RIM", "KernelRIM"],
           "mlp": ["MLPModel", "MLPMMD", "MLPWasserstein"], "sparse": E.SPARSE,
           "categorical_douglas": E.CATEGORICAL + ["Douglas"], "kauri": ["Kauri"]}
    budget = {"linear": (260, 4000), "mlp": (120, 2000), "sparse": (200, 3000), "categorical_douglas": (160, 2500), "kauri": (120, 2000)}
    out = []
    for k, v in fam.items():
        out.append(Sub("histories_" + k, None, interpret, budget[k][0], budget[k][1], "rule-based state machine: " + ", ".join(v),
                       machine=(lambda hook, v=v: machine_factory(hook, v)), steps=14))
    return out

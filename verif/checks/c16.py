"""C16 - invalid hyper-parameters and malformed inputs are rejected, never trained on."""
import itertools
import warnings

import numpy as np
from hypothesis import strategies as st

from .. import estimators as E
from ..harness import Sub, Violation, import_repo

import_repo()
import gemclus.gemini as G  # noqa: E402
from gemclus import add_mlcl_constraint  # noqa: E402
from gemclus import data as D  # noqa: E402
from gemclus.sparse._base_sparse import check_groups  # noqa: E402

QUICK_SCALE = 15  # quick budgets below are multiplied by this
THOROUGH_SCALE = 20  # thorough budgets below are multiplied by this (about ten minutes on 16 processes)

RULE = ("a table (in this file) with one row per hyper-parameter of every estimator, GEMINI constructor and validated "
        "function: values the documentation lists (must be accepted: a max_iter=1 fit / the call succeeds) and values "
        "outside it that are plainly meaningless - just outside each interval, wrong types, None where not documented, "
        "unknown options, inconsistent combinations (must raise a ValueError/TypeError-family error and leave no fitted "
        "model). Group lists over d<=3 features with indices in [-1,d] are enumerated exhaustively against the reference "
        "rule. Malformed data: NaN, +/-inf, strings, 1-D, 3-D, empty, n < n_clusters. Non-trivial: a value within one "
        "unit of a documented boundary or of the wrong type.")
ASSUMPTIONS = ["rejection is only demanded for values outside the documentation and plainly meaningless; acceptance only for "
               "documented values (bool-for-int and similar grey zones are not in the table)"]

RS = np.random.RandomState


def small_data(n=8, d=3, seed=0):
    return RS(seed).randn(n, d)


def dummy_kernel(X):
    return X @ X.T


# value tables --------------------------------------------------------------------------------------------------------------
COMMON = {
    "n_clusters": ([1, 2, 5], [0, -1, 1.5, "3", None]),
    "max_iter": ([1, 3], [0, -3, 2.5, None, "10"]),
    "learning_rate": ([1e-5, 0.1, 1, 10.0], [0, 0.0, -0.1, "0.1", None]),
    "solver": (["sgd", "adam"], ["SGD", "lbfgs", None, 1]),
    "batch_size": ([None, 1, 7, 100], [0, -1, 2.5, "5"]),
    "verbose": ([False], [None, "yes"]),
    "random_state": ([None, 0, 5, "RandomState"], [-1, "seed", 1.5]),
}
GEMINI_ARG = (["mmd_ova", "mmd_ovo", "wasserstein_ova", "wasserstein_ovo", "mi", "kl_ova", "kl_ovo", "tv_ova", "tv_ovo",
               "hellinger_ova", "hellinger_ovo", "chi2_ova", "chi2_ovo", None, "instance"],
              ["unknown", "MMD_OVA", 3, "class", 1.5])
KERNEL = (["linear", "rbf", "polynomial", "poly", "laplacian", "sigmoid", "cosine", "callable", "precomputed"], ["gaussian", 3, None, "LINEAR"])
KERNEL_NONNEG = (["additive_chi2", "chi2"], [])
METRIC = (["euclidean", "l2", "l1", "manhattan", "cityblock", "cosine", "callable", "precomputed"], ["minkowski3", 5, None, "EUCLIDEAN"])
PARAMS_DICT = ([None, {}], [[1], "gamma", 3])
BOOL = ([True, False], [None, "yes"])
PER_CLASS = {
    "n_hidden_dim": ([1, 10], [0, -1, 2.5, None]),
    "reg": ([0, 0.0, 0.1, 5], [-0.1, None, "1"]),
    "base_kernel": (["linear", "rbf", "cosine", "callable2"], ["precomputed", "gaussian", None, 3]),
    "base_kernel_params": PARAMS_DICT,
    "alpha": ([0, 0.01, 10.0], [-1e-3, None, "0.1"]),
    "M": ([0, 0.5, 10], [-1, None, "1"]),
    "dynamic": BOOL,
    "ovo": BOOL,
    "kernel_params": PARAMS_DICT,
    "metric_params": PARAMS_DICT,
    "n_cuts": ([1, 3], [0, -1, 1.5, "2"]),
    "temperature": ([0.01, 1, 10.0], [0, -1, None, "1"]),
    "feature_mask": ([None, "mask_ok"], ["mask_short", "mask_long", "a string"]),
    "groups": ([None, "groups_ok", "groups_partial"], ["groups_overlap", "groups_out_of_range", "groups_negative", "abc", 3]),
}
KAURI = {
    "max_clusters": ([1, 3], [0, -1, 1.5, None, "2"]),
    "max_depth": ([None, 1, 5], [0, -2, 1.5, "3"]),
    "min_samples_split": ([2, 5], [1, 0, -1, 2.5, None]),
    "min_samples_leaf": ([1], [0, -1, 1.5, None]),
    "max_features": ([None, 1, 3], [0, -1, 1.5]),
    "max_leaves": ([None, 2, 8], [1, 0, -1, 2.5]),
    "kernel": (["linear", "rbf", "cosine", "callable_pair", "precomputed"], ["gaussian", 5, None]),
    "verbose": ([False], [None, "yes"]),
    "random_state": ([None, 0, 5, "RandomState"], ["x", -1, 1.5]),
}


def params_of(cls):
    names = list(COMMON)
    if cls in E.NO_BATCH_ARG:
        names.remove("batch_size")
    table = {k: COMMON[k] for k in names}
    if cls in E.GENERIC:
        table["gemini"] = GEMINI_ARG
    if cls in E.MMD_CLASSES:
        table.update(kernel=KERNEL, kernel_params=PARAMS_DICT, ovo=BOOL)
    if cls in E.WASS_CLASSES:
        table.update(metric=METRIC, metric_params=PARAMS_DICT, ovo=BOOL)
    if cls in ("RIM", "KernelRIM"):
        table["reg"] = PER_CLASS["reg"]
    if cls == "KernelRIM":
        table.update(base_kernel=PER_CLASS["base_kernel"], base_kernel_params=PARAMS_DICT)
    if cls in E.MLPS:
        table["n_hidden_dim"] = PER_CLASS["n_hidden_dim"]
    if cls in E.SPARSE:
        table.update(alpha=PER_CLASS["alpha"], groups=PER_CLASS["groups"])
        if cls != "SparseLinearMI":
            table["dynamic"] = BOOL
    if cls in ("SparseMLPModel", "SparseMLPMMD"):
        table["M"] = PER_CLASS["M"]
    if cls == "Douglas":
        table.update(n_cuts=PER_CLASS["n_cuts"], temperature=PER_CLASS["temperature"], feature_mask=PER_CLASS["feature_mask"])
    return table


def table_rows():
    rows = []
    for cls in E.GRADIENT_MODELS:
        for name, (good, bad) in params_of(cls).items():
            rows += [{"target": cls, "param": name, "value": v, "good": True} for v in good]
            rows += [{"target": cls, "param": name, "value": v, "good": False} for v in bad]
    for name, (good, bad) in KAURI.items():
        rows += [{"target": "Kauri", "param": name, "value": v, "good": True} for v in good]
        rows += [{"target": "Kauri", "param": name, "value": v, "good": False} for v in bad]
    rows += [{"target": "Kauri", "param": "combo", "value": [3, 5], "good": False},
             {"target": "Kauri", "param": "combo", "value": [2, 3], "good": False},
             {"target": "Kauri", "param": "combo", "value": [2, 4], "good": True}]
    for gname in ("KLGEMINI", "TVGEMINI", "HellingerGEMINI", "ChiSquareGEMINI", "MMDGEMINI", "WassersteinGEMINI", "MI"):
        t = {"epsilon": ([1e-12, 1e-6, 0.1, 0.999], [0, 0.0, 1, 1.0, -1e-3, 1.5, None, "1e-3"])}
        if gname != "MI":
            t["ovo"] = BOOL
        if gname == "MMDGEMINI":
            t["kernel"] = (KERNEL[0] + KERNEL_NONNEG[0], KERNEL[1])
            t["kernel_params"] = PARAMS_DICT
        if gname == "WassersteinGEMINI":
            t["metric"] = (METRIC[0], METRIC[1])
            t["metric_params"] = PARAMS_DICT
        for name, (good, bad) in t.items():
            rows += [{"target": "gemini:" + gname, "param": name, "value": v, "good": True} for v in good]
            rows += [{"target": "gemini:" + gname, "param": name, "value": v, "good": False} for v in bad]
    fn = {
        "draw_gmm": {"n": ([1, 10], [0, -1, 1.5, "3", None]), "random_state": ([None, 0, "RandomState"], ["x", 1.5])},
        "multivariate_student_t": {"n": ([1, 5], [0, -2, 2.5]), "df": ([0.5, 3, 10], [0, -1, None, "3"]), "random_state": ([None, 3], ["x"])},
        "gstm": {"n": ([4, 50], [3, 0, -1, 4.5]), "alpha": ([0.1, 2], [0, -1, None]), "df": ([0.5, 1, 4], [0, -2, None])},
        "celeux_one": {"n": ([1, 30], [0, -1, 2.5]), "p": ([1, 20], [0, -1, 1.5]), "mu": ([0.1, 1.7], [0, -1, None])},
        "celeux_two": {"n": ([1, 30], [0, -1, 2.5, None])},
        "add_mlcl_constraint": {"factor": ([0.1, 1.0, 5], [0, -1, None, "1"]), "gemini_model": (["model"], ["kauri", "a string", None])},
    }
    for f, t in fn.items():
        for name, (good, bad) in t.items():
            rows += [{"target": "function:" + f, "param": name, "value": v, "good": True} for v in good]
            rows += [{"target": "function:" + f, "param": name, "value": v, "good": False} for v in bad]
    return rows


# materialisation -----------------------------------------------------------------------------------------------------------
def materialise(row, X):
    v, p = row["value"], row["param"]
    d = X.shape[1]
    extra_y = None
    if v == "RandomState":
        v = RS(4)
    elif v == "instance":
        v = G.TVGEMINI(ovo=True)
    elif v == "class":
        v = G.MMDGEMINI
    elif v == "callable":
        v = (lambda Z: Z @ Z.T) if p == "kernel" else (lambda Z: np.abs(Z[:, :1] - Z[:, :1].T))
    elif v == "callable2":
        v = lambda A, B: A @ B.T
    elif v == "callable_pair":
        v = lambda a, b: float(a @ b)
    elif v == "precomputed" and p in ("kernel", "metric"):
        extra_y = X @ X.T if p == "kernel" else np.abs(X[:, :1] - X[:, :1].T)
    elif v == "mask_ok":
        v = np.array([True] * (d - 1) + [False])
    elif v == "mask_short":
        v = np.array([True] * (d - 1))
    elif v == "mask_long":
        v = np.array([True] * (d + 1))
    elif v == "groups_ok":
        v = [[0, 2], [1]] if d == 3 else [list(range(d))]
    elif v == "groups_partial":
        v = [[0, 1]]
    elif v == "groups_overlap":
        v = [[0, 1], [1, 2]]
    elif v == "groups_out_of_range":
        v = [[0, d]]
    elif v == "groups_negative":
        v = [[-1, 0]]
    return v, extra_y


def expect(label, good, action, after=None):
    try:
        with warnings.catch_warnings():
            warnings.simplefilter("ignore")
            with np.errstate(all="ignore"):
                out = action()
    except (ValueError, TypeError) as e:
        if good:
            raise Violation(f"{label}: a documented value was rejected with {type(e).__name__}: {e}")
        return None
    except Exception as e:
        raise Violation(f"{label}: raised {type(e).__name__}: {e} - " + ("a documented value must be accepted" if good else
                        "an invalid value must be rejected with a ValueError/TypeError-family error"))
    if not good:
        raise Violation(f"{label}: an invalid value was accepted")
    return out


def oracle_table(row):
    target, p = row["target"], row["param"]
    X = small_data()
    v, extra_y = materialise(row, X)
    label = f"{target}({p}={row['value']!r})"
    boundary = isinstance(row["value"], (int, float)) and not isinstance(row["value"], bool) or row["value"] is None or isinstance(row["value"], str)
    if target.startswith("gemini:"):
        cls = getattr(G, target.split(":")[1])
        expect(label, row["good"], lambda: cls(**{p: v}))
        return {"nontrivial": True, "classes": [target, "good" if row["good"] else "bad"]}
    if target.startswith("function:"):
        f = target.split(":")[1]
        if f == "draw_gmm":
            kw = dict(n=5, loc=[[0.0, 0], [1, 1]], scale=[np.eye(2), np.eye(2)], pvals=[0.5, 0.5], random_state=0)
            kw[p] = v
            expect(label, row["good"], lambda: D.draw_gmm(**kw))
        elif f == "multivariate_student_t":
            kw = dict(n=5, loc=[0.0, 0], scale=np.eye(2), df=3, random_state=0)
            kw[p] = v
            expect(label, row["good"], lambda: D.multivariate_student_t(**kw))
        elif f == "add_mlcl_constraint":
            from gemclus.linear import LinearModel
            from gemclus.tree import Kauri
            model = {"model": LinearModel(), "kauri": Kauri(), "a string": "model", None: None}.get(v, LinearModel()) if p == "gemini_model" else LinearModel()
            kw = dict(must_link=[[0, 1]], cannot_link=[[1, 2]], factor=1.0)
            if p == "factor":
                kw["factor"] = v
            expect(label, row["good"], lambda: add_mlcl_constraint(model, **kw))
        else:
            kw = {p: v}
            expect(label, row["good"], lambda: getattr(D, f)(**kw))
        return {"nontrivial": True, "classes": [target, "good" if row["good"] else "bad"]}
    # estimators
    if target == "Kauri":
        from gemclus.tree import Kauri
        kw = {"max_clusters": 2}
        if p == "combo":
            kw.update(min_samples_leaf=v[0], min_samples_split=v[1])
        else:
            kw[p] = v
        make = lambda: Kauri(**kw)
    else:
        kw = {"max_iter": 1}
        if target in E.MMD_CLASSES + E.WASS_CLASSES + E.GENERIC + E.CATEGORICAL or True:
            kw["n_clusters"] = 2
        kw[p] = v
        if p in ("kernel",) and row["value"] in KERNEL_NONNEG[0]:
            X = np.abs(X)
        make = lambda: E.CLASSES[target](**kw)
    state = {}

    def action():
        est = make()
        state["est"] = est
        return est.fit(X, extra_y) if extra_y is not None else est.fit(X)

    expect(label, row["good"], action)
    est = state.get("est")
    if not row["good"] and est is not None:
        if hasattr(est, "labels_"):
            raise Violation(f"{label}: fit was rejected but the estimator carries labels_ (a model was trained)")
        try:
            est.predict(X)
        except Exception:
            pass
        else:
            raise Violation(f"{label}: fit was rejected but predict returns")
    return {"nontrivial": bool(boundary), "classes": [target, "good" if row["good"] else "bad"]}


# groups, exhaustively ---------------------------------------------------------------------------------------------------------
def group_lists(tier):
    dmax = 3 if tier == "quick" else 4
    for d in range(1, dmax + 1):
        vals = list(range(-1, d + 1))
        shapes = [(1,), (2,), (3,), (1, 1), (1, 2), (2, 1), (2, 2), (1, 3), (3, 1), (1, 1, 1), (2, 1, 1), (1, 2, 1), (1, 1, 2)]
        if tier != "quick":
            shapes += [(2, 3), (3, 2), (2, 2, 1), (2, 1, 2), (1, 2, 2), (2, 2, 2)]
        for shape in shapes:
            tot = sum(shape)
            for flat in itertools.product(vals, repeat=tot):
                it = iter(flat)
                yield {"d": d, "groups": [[next(it) for _ in range(k)] for k in shape]}


def oracle_groups(case):
    d, groups = case["d"], case["groups"]
    flat = [i for g in groups for i in g]
    valid = all(0 <= i < d for i in flat) and len(set(flat)) == len(flat)
    label = f"check_groups({groups}, {d})"
    out = expect(label, valid, lambda: check_groups([list(g) for g in groups], d))
    if valid:
        got = [sorted(g) for g in out]
        want = [sorted(g) for g in groups] + [[i] for i in range(d) if i not in flat]
        if sorted(got) != sorted(want):
            raise Violation(f"{label}: returned {out}, expected the declared groups completed by singletons {want}")
    return {"nontrivial": True, "classes": [f"d={d}", "valid" if valid else "invalid"]}


@st.composite
def groups_fit_case(draw):
    d = draw(st.integers(1, 4))
    groups = draw(st.lists(st.lists(st.integers(-1, d), min_size=1, max_size=3), min_size=1, max_size=3))
    return {"d": d, "groups": groups, "cls": draw(st.sampled_from(E.SPARSE))}


def oracle_groups_fit(case):
    d, groups = case["d"], case["groups"]
    flat = [i for g in groups for i in g]
    valid = all(0 <= i < d for i in flat) and len(set(flat)) == len(flat)
    X = small_data(8, d)
    est = E.CLASSES[case["cls"]](n_clusters=2, max_iter=1, groups=[list(g) for g in groups])
    label = f"{case['cls']}(groups={groups}).fit on {d} features"
    expect(label, valid, lambda: est.fit(X))
    if not valid and hasattr(est, "labels_"):
        raise Violation(f"{label}: rejected but a model was trained")
    return {"nontrivial": True, "classes": ["valid" if valid else "invalid"]}


# malformed data ---------------------------------------------------------------------------------------------------------------
def malformed_rows(tier, seed=0):
    kinds = ["nan", "inf", "neginf", "strings", "object_none", "one_dim", "three_dim", "empty_rows", "empty_cols", "too_few", "scalar", "complex"]
    for cls in list(E.CLASSES):
        for k in kinds:
            yield {"cls": cls, "kind": k}
        # non-finite samples stay non-finite when the affinity does not show it: a callable kernel / metric that returns a
        # finite matrix whatever it is given, or a valid user-supplied matrix
        for k in ("nan", "inf", "neginf"):
            for cfg in ("hiding_callable", "valid_matrix"):
                yield {"cls": cls, "kind": k, "config": cfg}
    # an option that other estimators document but this one does not, on data whose shape would let it through
    # (square data looks like a Gram matrix)
    yield {"cls": "KernelRIM", "kind": "undocumented_option_square_data"}


def _hiding(two_rows=False):
    if two_rows:
        return lambda a, b: 1.0 if np.array_equal(a, b) else 0.5
    return lambda A, B=None: np.ones((len(A), len(A if B is None else B))) + np.eye(len(A), len(A if B is None else B))


def _configured(cls, K, cfg):
    """(estimator, y) with an affinity that is finite although the samples are not; None when the class has no such option"""
    if cls == "Kauri":
        from gemclus.tree import Kauri
        if cfg == "hiding_callable":
            return Kauri(max_clusters=K, kernel=_hiding(two_rows=True)), None
        return Kauri(max_clusters=K, kernel="precomputed"), np.eye(8) + 1.0
    ctor = E.CLASSES[cls]
    names = ctor().get_params(deep=False)
    key = "kernel" if "kernel" in names else "metric" if "metric" in names else "base_kernel" if "base_kernel" in names else None
    if key is None:
        if "gemini" not in names:
            return None
        import gemclus.gemini as G
        if cfg == "hiding_callable":
            return ctor(n_clusters=K, max_iter=1, gemini=G.MMDGEMINI(kernel=_hiding())), None
        return ctor(n_clusters=K, max_iter=1, gemini=G.MMDGEMINI(kernel="precomputed")), np.eye(8) + 1.0
    if cfg == "hiding_callable":
        return ctor(n_clusters=K, max_iter=1, **{key: _hiding()}), None
    if key == "base_kernel":
        return None
    M_ = np.eye(8) + 1.0 if key == "kernel" else 1.0 - np.eye(8)
    return ctor(n_clusters=K, max_iter=1, **{key: "precomputed"}), M_


def oracle_malformed(case):
    cls, kind = case["cls"], case["kind"]
    if kind == "undocumented_option_square_data":
        Xs = small_data(6, 6)
        Xs = Xs @ Xs.T  # square, symmetric, positive semi-definite: indistinguishable from a kernel matrix
        est = E.CLASSES[cls](n_clusters=2, max_iter=1, base_kernel="precomputed")
        label = "KernelRIM(base_kernel='precomputed').fit on square data"
        expect(label, False, lambda: est.fit(Xs))
        if hasattr(est, "labels_"):
            raise Violation(f"{label}: rejected but a model was trained")
        return {"nontrivial": True, "classes": [kind]}
    X = small_data(8, 3)
    K = 3
    bad = {"nan": lambda: np.where(np.arange(24).reshape(8, 3) == 7, np.nan, X), "inf": lambda: np.where(np.arange(24).reshape(8, 3) == 5, np.inf, X),
           "neginf": lambda: np.where(np.arange(24).reshape(8, 3) == 5, -np.inf, X), "strings": lambda: np.array([["a", "b"], ["c", "d"], ["e", "f"], ["g", "h"]]),
           "object_none": lambda: np.array([[1.0, None], [2.0, 3.0], [1.0, 2.0], [0.0, 1.0]], dtype=object), "one_dim": lambda: X[:, 0],
           "three_dim": lambda: X.reshape(4, 2, 3), "empty_rows": lambda: np.zeros((0, 3)), "empty_cols": lambda: np.zeros((8, 0)),
           "too_few": lambda: X[:K - 1], "scalar": lambda: 3.0, "complex": lambda: X.astype(complex) + 1j}[kind]()
    if cls == "Kauri":
        from gemclus.tree import Kauri
        est = Kauri(max_clusters=K, min_samples_leaf=3, min_samples_split=6) if kind == "too_few" else Kauri(max_clusters=K)
    else:
        est = E.CLASSES[cls](n_clusters=K, max_iter=1)
    label = f"{cls}.fit on {kind} data"
    if case.get("config"):
        made = _configured(cls, K, case["config"])
        if made is None:
            return {"nontrivial": False, "classes": ["no_such_option"]}
        est, y = made
        label += f" ({case['config']})"
        # the configuration itself is valid: the same call on the finite data must be accepted
        twin, y2 = _configured(cls, K, case["config"])
        expect(label + " [finite data, control]", True, lambda: twin.fit(X, y2) if y2 is not None else twin.fit(X))
        expect(label, False, lambda: est.fit(bad, y) if y is not None else est.fit(bad))
        if hasattr(est, "labels_"):
            raise Violation(f"{label}: rejected but a model was trained")
        return {"nontrivial": True, "classes": [kind + ":" + case["config"]]}
    expect(label, False, lambda: est.fit(bad))
    if hasattr(est, "labels_"):
        raise Violation(f"{label}: rejected but a model was trained")
    return {"nontrivial": True, "classes": [kind]}


def unfitted_rows(tier, seed=0):
    for cls in list(E.CLASSES):
        for m in ("predict", "predict_proba", "score", "get_selection", "find_active_points"):
            yield {"cls": cls, "method": m}
    yield {"cls": "print_kauri_tree", "method": "call"}


def oracle_unfitted(case):
    cls, m = case["cls"], case["method"]
    X = small_data(8, 3)
    if cls == "print_kauri_tree":
        from gemclus.tree import Kauri, print_kauri_tree
        try:
            print_kauri_tree(Kauri())
        except Exception:
            return {"nontrivial": True, "classes": ["print"]}
        raise Violation("print_kauri_tree printed an unfitted tree")
    est = E.CLASSES[cls]()
    if not hasattr(est, m):
        return {"nontrivial": False, "classes": ["n/a"]}
    try:
        with warnings.catch_warnings():
            warnings.simplefilter("ignore")
            getattr(est, m)(X) if m != "get_selection" else getattr(est, m)()
    except Exception:
        return {"nontrivial": True, "classes": [m]}
    raise Violation(f"{cls}().{m} returned before fit")


# two simultaneous values ----------------------------------------------------------------------------------------------------------
@st.composite
def pair_case(draw):
    cls = draw(st.sampled_from(E.GRADIENT_MODELS + ["Kauri"]))
    table = KAURI if cls == "Kauri" else params_of(cls)
    names = sorted(n for n in table if n not in ("kernel", "metric", "groups", "feature_mask", "gemini", "base_kernel", "random_state"))
    a = draw(st.sampled_from(names))
    b = draw(st.sampled_from([n for n in names if n != a]))
    va_good = draw(st.booleans())
    vb_good = draw(st.booleans())
    va = draw(st.sampled_from(table[a][0] if va_good else table[a][1]))
    vb = draw(st.sampled_from(table[b][0] if vb_good else table[b][1]))
    return {"cls": cls, "a": a, "va": va, "b": b, "vb": vb, "good": va_good and vb_good}


def oracle_pair(case):
    cls = case["cls"]
    X = small_data(9, 3)
    kw = {"max_clusters": 2} if cls == "Kauri" else {"max_iter": 1, "n_clusters": 2}
    kw[case["a"]] = case["va"]
    kw[case["b"]] = case["vb"]
    if cls == "Kauri":
        from gemclus.tree import Kauri
        leaf, split = kw.get("min_samples_leaf", 1), kw.get("min_samples_split", 2)
        if case["good"] and isinstance(leaf, int) and isinstance(split, int) and 2 * leaf > split:
            return {"nontrivial": False, "classes": ["inconsistent_pair_skipped"]}
        make = lambda: Kauri(**kw)
    else:
        make = lambda: E.CLASSES[cls](**kw)
    label = f"{cls}({case['a']}={case['va']!r}, {case['b']}={case['vb']!r})"
    state = {}

    def action():
        state["est"] = make()
        return state["est"].fit(X)

    expect(label, case["good"], action)
    est = state.get("est")
    if not case["good"] and est is not None and hasattr(est, "labels_"):
        raise Violation(f"{label}: rejected but a model was trained")
    return {"nontrivial": True, "classes": ["both_good" if case["good"] else "some_bad"]}


def _gmm_case():
    from .c20 import bad_gmm_case
    return bad_gmm_case()


def _gmm_oracle(case):
    from .c20 import oracle_bad_gmm
    return oracle_bad_gmm(case)


def subs():
    return [
        Sub("pairs", pair_case(), oracle_pair, 600, 12000, "two hyper-parameters at once (any invalid one must win)"),
        Sub("table", None, oracle_table, 2000, 2000, "hyper-parameter table: documented values accepted, meaningless values rejected",
            plain=lambda tier, seed: table_rows()),
        Sub("groups_exhaustive", None, oracle_groups, 2000, 2000, "all group lists over d<=3 (thorough: d<=4) features",
            plain=lambda tier, seed: group_lists(tier)),
        Sub("groups_fit", groups_fit_case(), oracle_groups_fit, 300, 5000, "group lists through fit of the sparse estimators"),
        Sub("draw_gmm_parameters", _gmm_case(), _gmm_oracle, 120, 1500, "parameter sets of draw_gmm that do not describe a mixture (shared with C20)"),
        Sub("malformed_data", None, oracle_malformed, 200, 200, "malformed training data", plain=malformed_rows),
        Sub("unfitted", None, oracle_unfitted, 20, 20, "calls before fit", plain=unfitted_rows),
    ]

"""C10 - mini-batches partition the data and stay aligned with the affinity matrix."""
import math
import warnings

import numpy as np
from hypothesis import strategies as st

from .. import estimators as E
from .. import gens
from ..harness import Sub, Violation
from ..spy import BatchRecorder, optimiser_spy, rows_to_indices, val_score_spy
from .c03 import mlcl_arg

QUICK_SCALE = 4  # quick budgets below are multiplied by this (kept at about half a minute on 8 processes)
THOROUGH_SCALE = 8  # thorough budgets below are multiplied by this (about ten minutes on 16 processes)

RULE = ("real fits / paths of every batched family (KernelRIM, Douglas, nonparametric models included), plain and "
        "mlcl-decorated, n in [1,25], batch_size in {None,1..n+2}, max_iter in [1,4], data rows made unique by an id "
        "column; a recording wrapper on the instance's _batchify sees the array to split, the affinity and every yielded "
        "pair. Non-trivial: an epoch with >=2 batches whose last one is partial.")
ASSUMPTIONS = ["rows are identified by exact row equality with the array handed to _batchify (unique rows by construction)",
               "for KernelRIM the rows are those of its training kernel"]


@st.composite
def fit_case(draw, classes=None):
    s = draw(E.est_spec(classes=classes, n_max=25, d_max=3, iter_max=4, k_max=3, hidden_max=3, n_min=3))
    s["x"]["xkind"] = "normal"
    bias_batch(draw, s)
    return {"spec": s, "mlcl": draw(mlcl_arg(s["n"]))}


def bias_batch(draw, s):
    """More often than not pick a batch size that leaves a partial last batch (the interesting class)."""
    n = s["n"]
    partial = [b for b in range(2, n) if n % b != 0]
    if "batch_size" in s and partial and draw(st.integers(0, 9)) < 6:
        s["batch_size"] = draw(st.sampled_from(partial))


def unique_data(s):
    X = E.build_data(s)
    X = X.copy()
    aff = s.get("aff")
    if not (aff and aff["fam"] == "metric" and aff["name"] == "haversine"):
        X[:, 0] = X[:, 0] * 1e-3 + np.arange(len(X)) * 0.37 + 0.11
    return np.ascontiguousarray(X)


def check_epochs(label, rec, decorated, n, bsize, nonparam, Aref_full, X_fit):
    partial_seen = False
    for e, ep in enumerate(rec.epochs):
        if not decorated and not nonparam and len(np.unique(np.asarray(ep["full"]), axis=0)) != len(ep["full"]):
            return None  # rows cannot be told apart (degenerate kernel): nothing can be identified
        full = np.asarray(ep["full"])
        A = ep["affinity"]
        if len(full) != n:
            raise Violation(f"{label}: epoch {e}: _batchify was given {len(full)} rows, the data has {n}")
        if Aref_full is not None:
            if A is None:
                raise Violation(f"{label}: epoch {e}: no affinity delivered although the GEMINI needs one")
            if np.shape(A) != Aref_full.shape or not np.allclose(A, Aref_full, rtol=1e-10, atol=1e-12 * max(1.0, np.max(np.abs(Aref_full)))):
                raise Violation(f"{label}: epoch {e}: the affinity handed to the batches is not the affinity of the data")
        seen = []
        for b, (rows, ab) in enumerate(ep["batches"]):
            rows = np.asarray(rows)
            if decorated:
                idx = [int(i) for i in rows]
            elif nonparam:
                idx = list(range(n)) if rows.shape == full.shape and np.array_equal(rows, full) else None
            else:
                idx = rows_to_indices(full, rows)
            if idx is None:
                raise Violation(f"{label}: epoch {e} batch {b}: rows are not rows of the training array")
            if len(idx) > bsize:
                raise Violation(f"{label}: epoch {e} batch {b}: {len(idx)} rows exceed batch_size {bsize}")
            if nonparam and len(idx) != n:
                raise Violation(f"{label}: nonparametric model received a batch of {len(idx)} rows instead of the full data")
            if A is not None:
                want = np.asarray(A)[idx][:, idx]
                if ab is None or np.shape(ab) != want.shape or not np.array_equal(np.asarray(ab), want):
                    raise Violation(f"{label}: epoch {e} batch {b}: affinity block is not affinity[rows][:, rows] for rows {idx}")
            elif ab is not None:
                raise Violation(f"{label}: epoch {e} batch {b}: an affinity block appeared from no affinity")
            seen.extend(idx)
        if sorted(seen) != list(range(n)):
            missing = sorted(set(range(n)) - set(seen))
            dup = sorted({i for i in seen if seen.count(i) > 1})
            raise Violation(f"{label}: epoch {e}: batches do not partition the samples (missing {missing}, repeated {dup}; "
                            f"batch sizes {[len(r) for r, _ in ep['batches']]})")
        sizes = [len(r) for r, _ in ep["batches"]]
        if len(sizes) >= 2 and sizes[-1] < sizes[0]:
            partial_seen = True
    return partial_seen


def oracle_fit(case):
    from gemclus import add_mlcl_constraint
    s = case["spec"]
    label = E.label(s)
    X = unique_data(s)
    n = s["n"]
    est, y = E.build(s, X)
    if y is not None and s["random_state"] % 2 == 0:
        # a user-supplied matrix may come in any memory layout and is symmetric only up to rounding
        rs_ = np.random.RandomState(s["random_state"])
        y = np.asfortranarray(y * (1.0 + 1e-13 * np.triu(rs_.randn(*y.shape), 1)))
    rec = BatchRecorder(est, keep=True)
    mlcl = case["mlcl"]
    seen_rows = {"bad": None}
    if mlcl is not None:
        # under the decoration: the rows the model really trains on at each step must be those of the recorded indices
        inner_grads = est._compute_grads

        def watch(Xb, y_pred, gradient):
            if seen_rows["bad"] is None and s["cls"] != "KernelRIM":
                idx = list(getattr(est._batchify, "indices", []))
                if len(idx) != len(Xb) or not np.array_equal(np.asarray(Xb), X[idx]):
                    seen_rows["bad"] = (idx, len(Xb))
            return inner_grads(Xb, y_pred, gradient)

        est._compute_grads = watch
        try:
            add_mlcl_constraint(est, mlcl["ml"] or None, mlcl["cl"] or None, mlcl["factor"])
        except ValueError:
            return {"nontrivial": False, "classes": [s["cls"] + ":mlcl_rejected"]}
    steps = {"n": 0, "bad_indices": None}

    def on_step(opt, params, grads):
        steps["n"] += 1
        if mlcl is not None and steps["bad_indices"] is None:
            want = [int(i) for i in np.asarray(rec.last[0])]
            got = list(est._batchify.indices)
            if got != want:
                steps["bad_indices"] = (got, want)

    with warnings.catch_warnings():
        warnings.simplefilter("ignore")
        with np.errstate(all="ignore"), optimiser_spy(on_step):
            try:
                est.fit(X, y)
            except Exception as e:
                return {"nontrivial": False, "classes": [s["cls"] + ":fit_raised"], "counts": {"fit_raised": 1},
                        "note": f"{type(e).__name__}: {e}"}
    nonparam = s["cls"] in E.CATEGORICAL
    bsize = n if (nonparam or s.get("batch_size") is None) else s["batch_size"]
    base, ovo, aff = E.describe(s)
    Aref = aff(X)
    if s["cls"] == "KernelRIM":
        Aref = None
    if len(rec.epochs) != s["max_iter"]:
        raise Violation(f"{label}: {len(rec.epochs)} epochs were run, max_iter is {s['max_iter']}")
    partial = check_epochs(label, rec, mlcl is not None, n, bsize, nonparam, Aref, X)
    if partial is None:
        return {"nontrivial": False, "classes": [s["cls"] + ":ambiguous_rows"], "counts": {"ambiguous_rows": 1}}
    want_steps = s["max_iter"] * math.ceil(n / bsize)
    if steps["n"] != want_steps:
        raise Violation(f"{label}: {steps['n']} optimiser steps, expected max_iter*ceil(n/batch_size) = {want_steps}")
    if est.n_iter_ != s["max_iter"]:
        raise Violation(f"{label}: n_iter_ = {est.n_iter_}, max_iter = {s['max_iter']}")
    if seen_rows["bad"]:
        raise Violation(f"{label}: decorated model: a training step worked on a batch of {seen_rows['bad'][1]} rows while the "
                        f"recorded sample indices were {seen_rows['bad'][0]} (not the samples of that batch)")
    if steps["bad_indices"]:
        raise Violation(f"{label}: decorated model recorded batch indices {steps['bad_indices'][0]}, the batch holds "
                        f"samples {steps['bad_indices'][1]}")
    return {"nontrivial": bool(partial), "classes": [s["cls"] + (":mlcl" if mlcl else ""), "affinity:" + ("yes" if Aref is not None else "none")],
            "counts": {"epochs": len(rec.epochs), "steps": steps["n"]}}


# ------------------------------------------------------------------------------------------------ path
@st.composite
def path_case(draw):
    s = draw(E.est_spec(classes=E.SPARSE, n_max=16, d_max=4, iter_max=2, k_max=3, hidden_max=3, n_min=3))
    s["x"]["xkind"] = "normal"
    bias_batch(draw, s)
    s["alpha"] = draw(st.sampled_from([0.05, 0.5, 2.0]))
    if draw(st.booleans()):
        s["verbose"] = True
    return {"spec": s, "path": {"alpha_multiplier": draw(st.sampled_from([1.5, 3.0])), "min_features": draw(st.integers(1, 2)),
                                "max_patience": draw(st.integers(1, 3))},
            "mlcl": draw(mlcl_arg(s["n"])) if draw(st.booleans()) else None}


@st.composite
def dynamic_long_case(draw):
    """long dynamic paths over 6-10 features with a slow schedule: features leave and re-enter the selection, the affinity of
    a step is that of the features selected when it began"""
    cls = draw(st.sampled_from(["SparseLinearMMD", "SparseMLPMMD", "SparseLinearModel"]))
    s = draw(E.est_spec(classes=[cls], n_max=18, d_max=10, iter_max=3, k_max=3, hidden_max=3, n_min=8, d_min=6,
                        gem_names=["mmd_ova", "mmd_ovo", "wasserstein_ova"], allow_instance=False, kernel_forms=("named",),
                        lr=(0.1, 0.5, 0.05)))
    s["x"]["xkind"] = draw(st.sampled_from(["normal", "blobs"]))
    s["dynamic"] = True
    s["groups"] = None
    s.pop("gcont", None)
    bias_batch(draw, s)
    s["alpha"] = draw(st.sampled_from([0.02, 0.05, 0.1]))
    return {"spec": s, "path": {"alpha_multiplier": draw(st.sampled_from([1.1, 1.2, 1.05, 1.3])), "min_features": draw(st.integers(1, 3)),
                                "max_patience": draw(st.integers(1, 3))}}


def oracle_path(case):
    s = case["spec"]
    label = E.label(s) + f".path({case['path']})"
    X = unique_data(s)
    n = s["n"]
    est, y = E.build(s, X)
    rec = BatchRecorder(est, keep=True)
    bsize = n if s.get("batch_size") is None else s["batch_size"]
    val = {"calls": 0, "bad": None, "alpha": None, "steps": []}
    seen_rows = {"bad": None}
    mlcl = case.get("mlcl")
    if mlcl is not None:
        # a decorated model: at every training step of the path the recorded sample indices are those of the batch at hand
        from gemclus import add_mlcl_constraint
        inner_grads = est._compute_grads

        def watch(Xb, y_pred, gradient):
            if seen_rows["bad"] is None:
                idx = list(getattr(est._batchify, "indices", []))
                if len(idx) != len(Xb) or not np.array_equal(np.asarray(Xb), X[idx]):
                    seen_rows["bad"] = (idx, len(Xb))
            return inner_grads(Xb, y_pred, gradient)

        est._compute_grads = watch
        try:
            add_mlcl_constraint(est, mlcl["ml"] or None, mlcl["cl"] or None, mlcl["factor"])
        except ValueError:
            mlcl = None
            est._compute_grads = inner_grads

    def on_val(clf, Xv, yv, batch_size, res):
        val["calls"] += 1
        if clf.alpha != val["alpha"]:
            # first evaluation under a new penalty weight = start of a path step: the affinity of the step is that of the
            # features selected now (dynamic mode) - no weight changes between this call and the step's first epoch
            val["alpha"] = clf.alpha
            val["steps"].append((len(rec.epochs), np.sort(np.asarray(clf.get_selection())).copy()))
        if val["bad"] is not None:
            return
        g = clf.get_gemini()
        tot = 0.0
        j = 0
        sel = np.arange(Xv.shape[1])
        if clf.dynamic and yv is None:
            sel = clf.get_selection()
            if len(sel) == 0:  # nothing selected: predictions are constant and every affinity gives the same score
                sel = np.arange(Xv.shape[1])
        while j < len(Xv):
            blk = slice(j, j + batch_size)
            Ab = yv[blk][:, blk] if yv is not None else g.compute_affinity(Xv[blk][:, sel])
            tot += float(g(clf.predict_proba(Xv[blk]), Ab)) * len(Xv[blk])
            j += batch_size
        tot /= len(Xv)
        if min(int(batch_size), len(Xv)) != min(int(bsize), len(Xv)):  # blocks larger than the data are the whole data either way
            val["bad"] = f"validation score computed with blocks of {batch_size}, batch size is {bsize}"
        elif not (abs(tot - res[0]) <= 1e-9 * max(1.0, abs(tot)) or (np.isnan(tot) and np.isnan(res[0]))):
            val["bad"] = f"validation score {res[0]!r} != block-wise score {tot!r} over sequential aligned blocks"

    with warnings.catch_warnings():
        warnings.simplefilter("ignore")
        with np.errstate(all="ignore"), val_score_spy(on_val):
            try:
                est.path(X, y, **case["path"])
            except Exception as e:
                return {"nontrivial": False, "classes": [s["cls"] + ":path_raised"], "counts": {"path_raised": 1},
                        "note": f"{type(e).__name__}: {e}"}
    if val["bad"]:
        raise Violation(f"{label}: {val['bad']}")
    if seen_rows["bad"]:
        raise Violation(f"{label}: decorated model {mlcl}: a training step of the path worked on a batch of {seen_rows['bad'][1]} rows "
                        f"while the recorded sample indices were {seen_rows['bad'][0]} (not the samples of that batch)")
    partial = check_epochs(label, rec, mlcl is not None, n, bsize, False, None, X)
    # the affinity every epoch works with: the user's matrix, or the named kernel / metric of the data - in dynamic mode of
    # the features still selected when the path step began
    base, ovo, aff = E.describe(s)
    reduced = 0
    for e, ep in enumerate(rec.epochs):
        if y is not None:
            want = np.asarray(y)
        else:
            sel = np.arange(X.shape[1])
            if s.get("dynamic"):
                for start, sel_t in val["steps"]:  # the last step that began at or before this epoch governs it
                    if start <= e:
                        sel = sel_t
            if len(sel) == 0:
                continue
            reduced += int(len(sel) < X.shape[1])
            want = aff(np.ascontiguousarray(X[:, sel]))
        got = ep["affinity"]
        if want is None:
            if got is not None:
                raise Violation(f"{label}: epoch {e}: an affinity was handed to the batches of an objective that needs none")
            continue
        if got is None or np.shape(got) != np.shape(want) or not np.allclose(got, want, rtol=1e-9, atol=1e-12 * max(1.0, float(np.max(np.abs(want))))):
            raise Violation(f"{label}: epoch {e}: the affinity handed to the batches is not the affinity of the data"
                            + (f" restricted to the features {sel.tolist()} selected when the path step began" if y is None and s.get("dynamic") else "")
                            + (f" (max deviation {float(np.max(np.abs(np.asarray(got) - want))):.3g})" if got is not None and np.shape(got) == np.shape(want) else ""))
    return {"nontrivial": bool(partial), "classes": [s["cls"] + (":dynamic" if s.get("dynamic") else "")] + (["reduced_affinity"] if reduced else []),
            "counts": {"epochs": len(rec.epochs), "val_score_calls": val["calls"], "epochs_on_reduced_selection": reduced}}


@st.composite
def large_fit_case(draw):
    cls = draw(st.sampled_from(["LinearModel", "LinearMMD", "MLPModel", "SparseLinearMMD", "RIM", "Douglas"]))
    s = draw(E.est_spec(classes=[cls], n_max=12, d_max=2, iter_max=2, k_max=3, hidden_max=3, n_min=4, cuts_max=1,
                        gem_names=["mmd_ova", "mi", "tv_ova", "mmd_ovo"], allow_instance=False, kernel_forms=("named", "precomputed"),
                        xkinds=("normal",)))
    s["n"] = draw(st.integers(1030, 2300))
    s["batch_size"] = draw(st.sampled_from([None, 64, 1000, 1024, 1025, 333]))
    return {"spec": s, "mlcl": None}


@st.composite
def narrow_int_case(draw):
    """70-300 samples with batch sizes given as np.int8 / np.uint8 / np.int16 scalars (what indexing a small-integer numpy
    grid yields): positions and batch counts go beyond what those types hold"""
    cls = draw(st.sampled_from(["LinearModel", "LinearMMD", "MLPModel", "SparseLinearMMD", "RIM", "Douglas", "CategoricalModel"]))
    s = draw(E.est_spec(classes=[cls], n_max=12, d_max=2, iter_max=2, k_max=3, hidden_max=3, n_min=4, cuts_max=1,
                        gem_names=["mmd_ova", "mi", "tv_ova"], allow_instance=False, kernel_forms=("named", "precomputed"),
                        xkinds=("normal",)))
    s["n"] = draw(st.integers(70, 300))
    s.pop("ntype", None)
    if "batch_size" in s:
        t = draw(st.sampled_from(["int8", "uint8", "int16"]))
        s["batch_size"] = draw(st.integers(20, 127 if t == "int8" else 255))
        s["ntype_force"] = {"batch_size": t}
    return {"spec": s, "mlcl": None}


def subs():
    big = [Sub("fit_narrow_int_batch_size", narrow_int_case(), oracle_fit, 30, 600, "batch sizes as narrow numpy integers on 70-300 samples"),
           Sub("fit_large_n", large_fit_case(), oracle_fit, 24, 400, "n in 1030..2300 with several batch sizes")]
    return big + _subs()


def _subs():
    fam = {"linear": ["LinearModel", "LinearMMD", "LinearWasserstein", "RIM", "KernelRIM"],
           "mlp_sparse": ["MLPModel", "MLPMMD", "MLPWasserstein"] + E.SPARSE,
           "categorical_douglas": E.CATEGORICAL + ["Douglas"]}
    out = [Sub("fit_" + k, fit_case(classes=v), oracle_fit, 800, 15000, ", ".join(v)) for k, v in fam.items()]
    out.append(Sub("path_sparse", path_case(), oracle_path, 300, 5000, "path() of the sparse estimators incl. validation blocks"))
    out.append(Sub("path_dynamic_long", dynamic_long_case(), oracle_path, 40, 1000, "long dynamic paths over 6-10 features (selection leaves and re-enters)"))
    return out

"""C03 - every training update follows the true gradient of the regularised objective."""
import traceback
import warnings

import numpy as np
from hypothesis import strategies as st

from .. import estimators as E
from .. import gens
from ..harness import Sub, Violation
from ..spy import BatchRecorder, optimiser_spy
from ..stepcheck import StepChecker

QUICK_SCALE = 3  # quick budgets below are multiplied by this (kept at about half a minute on 8 processes)
THOROUGH_SCALE = 6  # thorough budgets below are multiplied by this (about ten minutes on 16 processes)

RULE = ("real fits of every gradient-trained family (tiny shapes: n<=12, d<=4, hidden<=4, K<=3, n_cuts<=2, max_iter<=3, "
        "learning rates up to 0.5, any batch size) with sklearn's BaseOptimizer.update_params wrapped; at each observed "
        "step and for each parameter array separately, -<direction,V> is compared with the Richardson derivative along V "
        "of GEMINI(model(batch)) - penalty + constraint energy with only that parameter perturbed. Non-trivial: a fit "
        "with >=1 checked step, >=1 accepted direction and a non-zero derivative.")
ASSUMPTIONS = ["same derivative rule and kink filter as C02 (ReLU pattern changes, Douglas cut crossings, TV/Wasserstein "
               "kinks are skipped and counted)",
               "the batch and its affinity block are taken as delivered by the library's _batchify (their alignment is "
               "C10's subject); steps beyond the 4th are sampled 1 in 4"]

GRAD_FRAMES = ("_compute_grads", "_update_weights", "intercept_grads")


@st.composite
def mlcl_arg(draw, n):
    if n < 2 or not draw(st.booleans()):
        return None
    groups = draw(st.lists(st.integers(0, 2), min_size=n, max_size=n))
    pairs = draw(st.lists(st.tuples(st.integers(0, n - 1), st.integers(0, n - 1)).filter(lambda p: p[0] != p[1]),
                          min_size=1, max_size=6))
    ml = [[i, j] for i, j in pairs if groups[i] == groups[j]]
    cl = [[i, j] for i, j in pairs if groups[i] != groups[j]]
    out = {"ml": ml, "cl": cl, "factor": draw(st.sampled_from([0.5, 1.0, 3.0]))}
    if draw(st.integers(0, 3)) == 0:
        # the helper applied a second time to the same model, with its own pairs and its own weight
        pairs2 = draw(st.lists(st.tuples(st.integers(0, n - 1), st.integers(0, n - 1)).filter(lambda p: p[0] != p[1]),
                               min_size=1, max_size=4))
        out["again"] = {"ml": [[i, j] for i, j in pairs2 if groups[i] == groups[j]],
                        "cl": [[i, j] for i, j in pairs2 if groups[i] != groups[j]],
                        "factor": draw(st.sampled_from([4.0, 0.25, 1.0]))}
    return out


@st.composite
def fit_case(draw, classes=None):
    s = draw(E.est_spec(classes=classes, cuts_max=4 if classes == ["Douglas"] else 2, d_max=3 if classes == ["Douglas"] else 4))
    return {"spec": s, "mlcl": draw(mlcl_arg(s["n"])), "dseed": draw(gens.seeds)}


def run_checked(case, path_args=None):
    from gemclus import add_mlcl_constraint
    s = case["spec"]
    X = E.build_data(s)
    est, y = E.build(s, X)
    rec = BatchRecorder(est, keep=False)
    mlcl = case.get("mlcl")
    if case["dseed"] % 4 == 0:
        # a read-only question put to the model in the middle of a training step (what a monitoring callback or a
        # user-written objective does): predictions of other samples, between the forward pass and the back-propagation
        inner_grads = est._compute_grads

        def monitored(Xb, y_pred, gradient):
            try:
                est.predict_proba(np.ascontiguousarray(X[::-1][:len(Xb)]))
            except Exception:
                pass
            return inner_grads(Xb, y_pred, gradient)

        est._compute_grads = monitored
    if mlcl is not None:
        try:
            add_mlcl_constraint(est, mlcl["ml"] or None, mlcl["cl"] or None, mlcl["factor"])
            if mlcl.get("again"):
                add_mlcl_constraint(est, mlcl["again"]["ml"] or None, mlcl["again"]["cl"] or None, mlcl["again"]["factor"])
        except ValueError:
            # acceptance of consistent constraint sets is C14's subject; nothing to observe here
            return {"nontrivial": False, "classes": [s["cls"] + ":mlcl_rejected"], "counts": {"mlcl_rejected": 1}}
    try:
        chk = StepChecker(est, s, X, rec, mlcl=mlcl, dseed=case["dseed"])
    except (ValueError, TypeError):
        # the estimator cannot build its GEMINI from an accepted configuration: C04's subject
        return {"nontrivial": False, "classes": [s["cls"] + ":get_gemini_raised"], "counts": {"get_gemini_raised": 1}}
    raised = None
    with warnings.catch_warnings():
        warnings.simplefilter("ignore")
        with np.errstate(all="ignore"), optimiser_spy(chk.on_step):
            try:
                if path_args is None:
                    est.fit(X, y)
                else:
                    est.path(X, y, **path_args)
            except Violation:
                raise
            except Exception as e:
                frames = [f.name for f in traceback.extract_tb(e.__traceback__)]
                if any(fr in GRAD_FRAMES for fr in frames):
                    raise Violation(f"{E.label(s)}{' decorated ' + str(mlcl) if mlcl else ''}: computing the update "
                                    f"raised {type(e).__name__}: {e}")
                raised = f"{type(e).__name__}: {e}"
    st_ = chk.stats
    nontrivial = st_["steps_checked"] >= 1 and st_["directions_accepted"] >= 1 and st_["nonzero_derivatives"] >= 1
    gem = s.get("gemini", {})
    cls = [s["cls"] + (":mlcl" if mlcl else ""), "solver:" + s["solver"],
           "batch:" + ("full" if s.get("batch_size") is None or s.get("batch_size") >= s["n"] else "mini")]
    counts = dict(st_)
    if raised:
        counts["fit_raised_outside_gradient_code"] = 1
    return {"nontrivial": bool(nontrivial), "classes": cls, "counts": counts,
            "note": {"steps": st_["steps_seen"], "checked": st_["steps_checked"], "raised": raised}}


def oracle_fit(case):
    return run_checked(case)


@st.composite
def path_case(draw):
    s = draw(E.est_spec(classes=E.SPARSE, iter_max=2, d_max=4))
    s["alpha"] = draw(st.sampled_from([0.05, 0.5, 2.0]))
    if draw(st.booleans()):
        s["verbose"] = True  # the path prints a lot: its verbose branches are code paths like any other
    if s.get("batch_size") is not None and draw(st.booleans()):
        s["batch_size"] = max(1, s["n"] // draw(st.integers(2, 3)))  # several batches per epoch
    return {"spec": s, "mlcl": draw(mlcl_arg(s["n"])), "dseed": draw(gens.seeds),
            "path": {"alpha_multiplier": draw(st.sampled_from([1.5, 3.0])), "min_features": draw(st.integers(1, 2)),
                     "max_patience": draw(st.integers(1, 3))}}


def oracle_path(case):
    return run_checked(case, path_args=case["path"])


FDIV_NAMES = ["mi", "kl_ovo", "tv_ova", "tv_ovo", "hellinger_ova", "hellinger_ovo", "chi2_ova", "chi2_ovo"]


@st.composite
def large_fit_case(draw):
    cls = draw(st.sampled_from(["LinearModel", "MLPModel", "SparseLinearModel", "SparseMLPModel", "CategoricalModel", "Douglas", "RIM"]))
    s = draw(E.est_spec(classes=[cls], n_max=12, d_max=3, iter_max=1, k_max=4, hidden_max=4, n_min=4, cuts_max=2,
                        gem_names=FDIV_NAMES, allow_instance=False, xkinds=("normal",)))
    s["n"] = draw(st.integers(1030, 2300))
    if "batch_size" in s:
        s["batch_size"] = draw(st.sampled_from([None, 1024, 1025, 700]))
    return {"spec": s, "mlcl": None, "dseed": draw(gens.seeds)}


def _dyn_case():
    from .c10 import dynamic_long_case
    return dynamic_long_case()


def _dyn_oracle(case):
    """the affinity a dynamic path trains and validates with is the named kernel / metric of the features selected when the
    step began (shared with C10)"""
    from .c10 import oracle_path
    out = oracle_path(case)
    out["nontrivial"] = bool(out.get("counts", {}).get("epochs_on_reduced_selection", 0) > 0)
    return out


def subs():
    return [Sub("fit_large_n", large_fit_case(), oracle_fit, 16, 300, "f-divergence fits on 1030-2300 samples (blocked gradient code)"),
            Sub("path_dynamic_affinity", _dyn_case(), _dyn_oracle, 12, 400, "dynamic paths: the batch objective uses the affinity of the currently selected features")] + _subs()


def _subs():
    fam = {
        "linear": ["LinearModel", "LinearMMD", "LinearWasserstein", "RIM", "KernelRIM"],
        "mlp": ["MLPModel", "MLPMMD", "MLPWasserstein"],
        "sparse": E.SPARSE,
        "categorical": E.CATEGORICAL,
        "douglas": ["Douglas"],
    }
    out = [Sub("fit_" + k, fit_case(classes=v), oracle_fit, 400, 8000, f"real fits of {', '.join(v)}") for k, v in fam.items()]
    out.append(Sub("path_sparse", path_case(), oracle_path, 150, 3000, "inner loop of path() of the sparse estimators"))
    return out

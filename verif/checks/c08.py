"""C08 - KAURI gains are real objective increases and the chosen split is the best one."""
import warnings

import numpy as np
from hypothesis import strategies as st

from .. import build
from .. import estimators as E
from .. import gens
from ..harness import KNOWN, KnownFinding, Sub, Violation, known
from ..refs import kauri_ref as KR

QUICK_SCALE = 3  # quick budgets below are multiplied by this (kept at about half a minute on 8 processes)
THOROUGH_SCALE = 4  # thorough budgets below are multiplied by this (about ten minutes on 16 processes)

RULE = ("(A) arbitrary consistent intermediate states: n in [3,12] samples on a small integer grid (ties, duplicates), "
        "d<=3, symmetric kernels (PSD, indefinite, tanh-like), up to 5 leaves, every cluster non-empty, K_max >= "
        "n_clusters, explorable and feature subsets, min_leaf in [1,3]; (B) every find_best_split call of real "
        "Kauri.fit runs (module attribute wrapped). Oracle: brute-force enumeration of all admissible alternatives "
        "with the real gain J(after)-J(before). Run on every variant of the extension obtainable from the tree "
        "(imported .so, _utils.cpp rebuilt with g++, _utils.pyx translated to Python). Non-trivial: positive-gain state.")
ASSUMPTIONS = ["gains compared to 1e-9*max(1, n*max|K|); the arg-max is not compared (ties are legitimate)",
               "known findings D12/D13 are recognised only when switching on exactly that emulation reproduces the "
               "returned gain; such cases are excluded and counted",
               "states with more features than samples are not generated (the double-star expression of D12 reads out "
               "of bounds there)"]

VARIANTS, SKIPPED = build.load_variants()


def evidence_extra():
    return {"variants": sorted(VARIANTS), "variants_skipped": SKIPPED}


def close(a, b, scale):
    return abs(a - b) <= 1e-9 * max(1.0, scale, abs(a), abs(b))


# ------------------------------------------------------------------------------------------------ state level
@st.composite
def state_case(draw, mid=False):
    n = draw(st.integers(30, 64)) if mid else draw(st.integers(3, 12))
    d = draw(st.integers(1, min(3, n)))
    L = draw(st.integers(1, 8)) if mid else draw(st.integers(1, min(5, max(1, n // 2))))
    nK = draw(st.integers(1, L))
    leaf_of = list(range(L)) + draw(st.lists(st.integers(0, L - 1), min_size=n - L, max_size=n - L))
    leaf_of = [leaf_of[i] for i in draw(st.permutations(range(n)))]
    cl = list(range(nK)) + draw(st.lists(st.integers(0, nK - 1), min_size=L - nK, max_size=L - nK))
    cl = [cl[i] for i in draw(st.permutations(range(L)))]
    explore = sorted(draw(st.sets(st.integers(0, L - 1), min_size=1, max_size=L)))
    feats = draw(st.lists(st.integers(0, d - 1), min_size=1, max_size=d, unique=True))
    return {"n": n, "d": d, "leaf_of": leaf_of, "cl_of_leaf": cl, "nK": nK,
            "K_max": nK + draw(st.sampled_from([2, 0, 1, 3, 0, 1])), "min_leaf": draw(st.sampled_from([1, 1, 1, 2, 3])), "explore": explore,
            "features": feats, "xseed": draw(gens.seeds), "grid": draw(st.sampled_from([6, 3, 2])),
            "kernel": draw(st.sampled_from(["linear", "psd", "rbf", "indef", "tanh"])), "kseed": draw(gens.seeds),
            "variants": ["so", "cpp"] if mid else None}


def build_state(c):
    rs = np.random.RandomState(c["xseed"])
    X = rs.randint(0, c["grid"], size=(c["n"], c["d"])).astype(np.float64)
    ks = np.random.RandomState(c["kseed"])
    n = c["n"]
    if c["kernel"] == "psd":
        A = ks.randn(n, n)
        K = A @ A.T
    elif c["kernel"] == "indef":
        A = ks.randn(n, n)
        K = (A + A.T) / 2
    elif c["kernel"] == "tanh":
        F = ks.randn(n, 2)
        K = np.tanh(0.7 * F @ F.T + 0.3)
    elif c["kernel"] == "rbf":
        F = X + 0.1 * ks.randn(*X.shape)
        K = np.exp(-0.5 * ((F[:, None, :] - F[None, :, :]) ** 2).sum(-1))
    else:
        F = X + 0.1 * ks.randn(*X.shape)
        K = F @ F.T
    K = np.ascontiguousarray((K + K.T) / 2, dtype=np.float64)
    L = len(c["cl_of_leaf"])
    Z = np.zeros((L + 2, n), dtype=np.int64)
    Z[np.array(c["leaf_of"]), np.arange(n)] = 1
    Y = np.zeros((max(c["K_max"], c["nK"]), L + 2), dtype=np.int64)
    Y[np.array(c["cl_of_leaf"]), np.arange(L)] = 1
    return K, X, Y, Z, L


def judge(name, sp, state, label):
    """Compares one returned Split with the brute force; returns the kind of the true optimum."""
    scale = state.K.shape[0] * float(np.max(np.abs(state.K)))
    b0, kind0 = state.best()
    gain = float(sp.gain)
    if sp.leaf < 0 or gain <= 0:
        if b0 > 1e-9 * max(1.0, scale):
            attribute(name, gain if gain > 0 else 0.0, state, scale, label,
                      f"no split returned (gain {gain!r}) although an admissible {kind0} split gains {b0!r}")
        return "none"
    leaf, f, thr, lt, rt = int(sp.leaf), int(sp.feature), float(sp.threshold), int(sp.left_target), int(sp.right_target)
    if leaf not in state.explore or f not in state.features:
        raise Violation(f"{label} [{name}]: returned split uses leaf {leaf} / feature {f} outside the explorable leaves "
                        f"{state.explore} / candidate features {state.features}")
    idx = np.where(state.leaf_of == leaf)[0]
    k = int(state.cl_of_leaf[leaf])
    left = idx[state.X[idx, f] <= thr]
    right = idx[state.X[idx, f] > thr]
    if len(left) < state.min_leaf or len(right) < state.min_leaf:
        raise Violation(f"{label} [{name}]: returned split leaves {len(left)}/{len(right)} samples, min_samples_leaf is "
                        f"{state.min_leaf}")
    if thr not in state.X[idx, f]:
        raise Violation(f"{label} [{name}]: threshold {thr} is not an observed value of feature {f} in leaf {leaf}")
    legal = {(a, b) for a, b, _ in state.assignments(k, len(idx))}
    if (lt, rt) not in legal:
        raise Violation(f"{label} [{name}]: assignment L={lt} R={rt} is not admissible (cluster {k}, n_clusters "
                        f"{state.nK}, max_clusters {state.K_max})")
    real = state.real_gain(left, right, k, lt, rt)
    if not close(gain, real, scale):
        is_double = lt >= state.nK and rt >= state.nK
        if is_double:
            w = state.wrong_double_star(leaf, f, left, right, k)
            if w is not None and close(gain, w, scale):
                known("D12", f"double-star gain {gain!r} reported for a split whose real objective increase is {real!r}")
        raise Violation(f"{label} [{name}]: reported gain {gain!r} but applying the split (leaf {leaf}, X[:,{f}]<={thr}, "
                        f"L->{lt}, R->{rt}) changes the objective by {real!r}")
    if not close(gain, b0, scale):
        attribute(name, gain, state, scale, label,
                  f"returned gain {gain!r} (leaf {leaf}, X[:,{f}]<={thr}, L->{lt}, R->{rt}) but an admissible {kind0} "
                  f"split gains {b0!r}")
    return kind0


def attribute(name, gain, state, scale, label, msg):
    """The returned gain is not the true optimum: known finding if (and only if) an emulation reproduces it."""
    if "D12" in KNOWN:
        b1, _ = state.best(emu_ds=True)
        if close(gain, b1, scale):
            known("D12", "best split missed/mis-valued because the double-star gain formula is wrong")
    if "D13" in KNOWN:
        b2, _ = state.best(emu_typo=True)
        if close(gain, b2, scale):
            known("D13", "non-maximal reallocation returned (runner-up of the right-hand switch mis-tracked)")
    if "D12" in KNOWN and "D13" in KNOWN:
        b3, _ = state.best(emu_ds=True, emu_typo=True)
        if close(gain, b3, scale):
            known("D12", "best split missed: double-star formula and reallocation runner-up (D12+D13)")
    raise Violation(f"{label} [{name}]: {msg}")


def oracle_state(case):
    K, X, Y, Z, L = build_state(case)
    state = KR.State(K, X, case["leaf_of"], case["cl_of_leaf"], case["nK"], max(case["K_max"], case["nK"]), case["min_leaf"],
                     case["explore"], case["features"])
    label = f"state n={case['n']} leaves={L} clusters={case['nK']}/{state.K_max} min_leaf={case['min_leaf']} kernel={case['kernel']}"
    kind = None
    pending = None
    for name, mod in VARIANTS.items():
        if case.get("variants") and name not in case["variants"]:
            continue
        Kc, Xc, Yc, Zc = K.copy(), X.copy(), Y.copy(), Z.copy()
        try:
            sp = mod.find_best_split(Kc, Xc, np.array(case["explore"], dtype=np.int64), Yc, Zc, case["nK"], state.K_max, L,
                                     case["min_leaf"], np.array(case["features"], dtype=np.intp))
        except Exception as e:
            raise Violation(f"{label} [{name}]: find_best_split raised {type(e).__name__}: {e}")
        if not (np.array_equal(Kc, K) and np.array_equal(Xc, X) and np.array_equal(Yc, Y) and np.array_equal(Zc, Z)):
            raise Violation(f"{label} [{name}]: find_best_split modified its inputs")
        try:
            kind = judge(name, sp, state, label)
        except KnownFinding as kf:
            pending = kf
    if pending is not None:
        raise pending
    b0, k0 = state.best()
    return {"nontrivial": bool(b0 > 1e-9), "classes": [f"best:{k0}"], "note": {"best_gain": b0}}


# ------------------------------------------------------------------------------------------------ history level
@st.composite
def fit_case(draw):
    s = draw(E.kauri_spec(n_max=20, d_max=3, kinds=("grid", "grid2", "normal", "offset", "ulp", "blobs")))
    s["max_clusters"] = draw(st.sampled_from([1, 2, 2, 3, 3, 4, 6]))
    s["d"] = s["x"]["d"] = min(s["d"], s["n"])
    if s["max_features"] is not None:
        s["max_features"] = min(s["max_features"], s["d"] + 1)
    return {"spec": s}


def oracle_fit(case):
    import gemclus.tree.kauri as kauri_mod
    s = case["spec"]
    X = E.build_kauri_data(s)
    label = E.label(s)
    pending = None
    best_kinds = []
    for name, mod in VARIANTS.items():
        est, y = E.build_kauri(s, X)
        calls = []

        def spy(*args, _mod=mod):
            sp = _mod.find_best_split(*args)
            calls.append(([np.array(a, copy=True) if isinstance(a, np.ndarray) else a for a in args], sp))
            return sp

        orig = kauri_mod.find_best_split
        kauri_mod.find_best_split = spy
        try:
            with warnings.catch_warnings():
                warnings.simplefilter("ignore")
                est.fit(X, y)
        except Exception as e:
            raise Violation(f"{label} [{name}]: fit raised {type(e).__name__}: {e}")
        finally:
            kauri_mod.find_best_split = orig
        Kmat = E.kauri_ref_kernel(s, X) if s["kernel"]["form"] != "named" else calls[0][0][0] if calls else None
        hit_known = None
        for args, sp in calls:
            state = KR.state_from_arrays(*args)
            try:
                best_kinds.append(judge(name, sp, state, label + f", call with {args[7]} leaves"))
            except KnownFinding as kf:
                hit_known = kf
        if calls:
            gains = est.tree_.gains
            total = KR.J(np.zeros(len(X), dtype=int), Kmat) + float(np.sum(gains))
            final = KR.J(est.labels_, Kmat)
            scale = len(X) * float(np.max(np.abs(Kmat)))
            if not close(total, final, scale) and hit_known is None:
                raise Violation(f"{label} [{name}]: root score + recorded gains = {total!r} but the objective of labels_ is {final!r}")
            sc = est.score(X, y)
            if not close(sc, final, scale):
                raise Violation(f"{label} [{name}]: score {sc!r} != objective of labels_ {final!r}")
            # stopping: if the last evaluated split still had positive gain a structural limit must bind
            last_gain = float(calls[-1][1].gain)
            t = est.tree_
            n_leaves = (t.n_nodes + 1) // 2
            max_leaves = s["max_leaves"] if s["max_leaves"] is not None else len(X)
            if last_gain > 0 and n_leaves < max_leaves:
                max_depth = len(X) if s["max_depth"] is None else s["max_depth"]
                sizes = np.bincount(est.leaves_, minlength=n_leaves)
                leaf_nodes = [i for i in range(t.n_nodes) if t.children_left[i] == -1]
                # leaves_ numbers leaves in creation order; node depth is enough for the depth guard
                explorable = [nd for nd in leaf_nodes if t.depths[nd] < max_depth]
                if explorable and any(sz >= s["min_samples_split"] for sz in sizes) and hit_known is None:
                    ok = False
                    for nd in explorable:
                        Xn = route_mask(t, X, nd)
                        if Xn.sum() >= s["min_samples_split"]:
                            ok = True
                    if ok:
                        raise Violation(f"{label} [{name}]: fit stopped after a positive gain {last_gain!r} with "
                                        f"{n_leaves} < max_leaves={max_leaves} leaves and explorable leaves left")
        if not calls:
            # the split search was never consulted: legitimate only if a structural limit forbids splitting the root
            n = len(X)
            max_leaves = s["max_leaves"] if s["max_leaves"] is not None else n
            full_subset = s["max_features"] is None or s["max_features"] >= X.shape[1]
            if n >= s["min_samples_split"] and max_leaves > 1 and full_subset:
                Kroot = E.kauri_ref_kernel(s, X) if s["kernel"]["form"] != "named" else \
                    np.ascontiguousarray(__import__("sklearn.metrics").metrics.pairwise_kernels(X, metric=s["kernel"]["name"]), dtype=np.float64)
                root = KR.State(Kroot, X, np.zeros(n, dtype=int), np.zeros(1, dtype=int), 1, s["max_clusters"],
                                s["min_samples_leaf"], [0], list(range(X.shape[1])))
                b0, k0 = root.best()
                if b0 > 1e-9 * max(1.0, n * float(np.max(np.abs(Kroot)))):
                    raise Violation(f"{label} [{name}]: fit made no split and never searched for one although an admissible "
                                    f"{k0} split of the root gains {b0!r} and no structural limit binds")
        if hit_known is not None:
            pending = hit_known
    if pending is not None:
        raise pending
    return {"nontrivial": bool(best_kinds and any(k != "none" for k in best_kinds)),
            "classes": ["fit:" + s["kernel"]["form"]] + sorted({f"best:{k}" for k in best_kinds}),
            "counts": {"find_best_split_calls": len(best_kinds)}}


def route_mask(t, X, node):
    """Boolean mask of the rows of X that reach `node`."""
    mask = np.ones(len(X), dtype=bool)
    # walk up: find the path from the root
    parent = {}
    for i in range(t.n_nodes):
        if t.children_left[i] != -1:
            parent[t.children_left[i]] = (i, True)
            parent[t.children_right[i]] = (i, False)
    cur = node
    while cur in parent:
        p, is_left = parent[cur]
        cond = X[:, t.features[p]] <= t.thresholds[p]
        mask &= cond if is_left else ~cond
        cur = p
    return mask


def subs():
    return [
        Sub("states_mid", state_case(mid=True), oracle_state, 60, 2500, "states with 30-64 samples and up to 8 leaves (compiled variants)"),
        Sub("states", state_case(), oracle_state, 4000, 120000, "generated intermediate states x variants"),
        Sub("fits", fit_case(), oracle_fit, 500, 12000, "every find_best_split call of real fits x variants"),
    ]

"""C20 - synthetic data generators follow their documented distributions."""
import warnings

import numpy as np
from hypothesis import strategies as st
from scipy import stats

from .. import gens
from ..harness import Sub, Violation, import_repo

import_repo()
from gemclus import data as D  # noqa: E402

QUICK_SCALE = 4  # quick budgets below are multiplied by this (kept at about half a minute on 8 processes)
THOROUGH_SCALE = 12  # thorough budgets below are multiplied by this (about ten minutes on 16 processes)

RULE = ("generated parameter sets (n 2e4..1.2e5, 1-4 dimensions, 2-4 components, means, PSD covariances from random "
        "factors, dyadic proportions that sum to 1 exactly, df, alpha/mu/p) and seeds; per label the whitened samples are "
        "tested against N(0,1) / t_df by Kolmogorov-Smirnov and by z-tests on means, variances and correlations; "
        "proportions by a binomial z-test; celeux_two's dependent block by least squares. Invalid parameter sets must "
        "raise. Non-trivial: >=2 components with distinct means and a non-identity covariance, n>=1e4 (draw_gmm) / any "
        "statistical case of the fixed datasets.")
ASSUMPTIONS = ["every single statistical comparison is made at a false-alarm level of 1e-9 (|z| <= 6.1, Kolmogorov "
               "statistic sqrt(n)*D <= 3.3); a wrong mean / scale / component is many standard errors away at these n",
               "constants of the Celeux datasets re-typed from Celeux et al. (2014), sections 3.1 and 3.2"]

Z = 6.11  # two-sided normal quantile for 1e-9
KS = 3.3  # P(sqrt(n) D > 3.3) ~ 7e-10


def ztest(label, what, est, true, se):
    if se <= 0:
        if abs(est - true) > 1e-12 * max(1.0, abs(true)):
            raise Violation(f"{label}: {what} = {est!r}, documented value {true!r}")
        return
    z = (est - true) / se
    if abs(z) > Z:
        raise Violation(f"{label}: {what} = {est!r} is {z:.1f} standard errors away from the documented value {true!r}")


def kstest(label, what, x, cdf):
    n = len(x)
    if n < 50:
        return
    d = stats.kstest(x, cdf).statistic
    if np.sqrt(n) * d > KS:
        raise Violation(f"{label}: {what} does not follow the documented law (Kolmogorov statistic {d:.4f} on {n} samples, "
                        f"sqrt(n)*D = {np.sqrt(n) * d:.1f})")


def check_gaussian(label, Xk, mu, cov):
    """Xk: samples attributed to a component documented as N(mu, cov)."""
    nk, d = Xk.shape
    if nk < 200:
        return
    w, V = np.linalg.eigh(cov)
    keep = w > 1e-12 * max(1.0, w.max())
    Wm = V[:, keep] / np.sqrt(w[keep])
    Zs = (Xk - mu) @ Wm
    for j in range(Zs.shape[1]):
        kstest(label, f"whitened coordinate {j}", Zs[:, j], "norm")
        ztest(label, f"mean of whitened coordinate {j}", Zs[:, j].mean(), 0.0, 1 / np.sqrt(nk))
        ztest(label, f"variance of whitened coordinate {j}", Zs[:, j].var(ddof=1), 1.0, np.sqrt(2.0 / (nk - 1)))
        for l in range(j):
            ztest(label, f"correlation of whitened coordinates {l},{j}", float(np.mean(Zs[:, j] * Zs[:, l])), 0.0, 1 / np.sqrt(nk))
    if (~keep).any():  # degenerate directions: no spread at all
        R = (Xk - mu) @ V[:, ~keep]
        if np.max(np.abs(R)) > 1e-6 * max(1.0, np.sqrt(w.max())):
            raise Violation(f"{label}: samples spread along a direction where the covariance is singular")


# ------------------------------------------------------------------------------------------------ draw_gmm
PVALS = {2: [[0.5, 0.5], [0.25, 0.75], [0.125, 0.875]], 3: [[0.5, 0.25, 0.25], [0.125, 0.375, 0.5], [0.25, 0.25, 0.5]],
         4: [[0.25, 0.25, 0.25, 0.25], [0.125, 0.125, 0.25, 0.5]]}


@st.composite
def gmm_case(draw):
    d = draw(st.integers(1, 4))
    K = draw(st.integers(2, 4))
    return {"d": d, "K": K, "n": draw(st.sampled_from([20000, 60000, 120000])), "pvals": draw(st.sampled_from(PVALS[K])),
            "pseed": draw(gens.seeds), "seed": draw(st.integers(0, 10 ** 6)), "cov_kind": draw(st.sampled_from(["full", "diag", "identity", "lowrank"])),
            "layout_1d": draw(st.sampled_from(["K1", "K11"])), "spread": draw(st.sampled_from([1.0, 0.1, 25.0])),
            "mixed_spread": draw(st.booleans()), "tied": draw(st.integers(0, 3)) == 0}


def gmm_params(c):
    rs = np.random.RandomState(c["pseed"])
    d, K = c["d"], c["K"]
    loc = rs.randn(K, d) * 4
    covs = []
    for k in range(K):
        if c["cov_kind"] == "identity":
            S = np.eye(d)
        elif c["cov_kind"] == "diag":
            S = np.diag(rs.uniform(0.2, 4.0, size=d))
        elif c["cov_kind"] == "lowrank" and d >= 2:
            A = rs.randn(d, d - 1)
            S = A @ A.T
        else:
            A = rs.randn(d, d)
            S = A @ A.T + 0.1 * np.eye(d)
        covs.append(S * c["spread"])
    covs = np.array(covs)
    if c.get("tied"):
        covs[:] = covs[0]  # every component shares one covariance (only the means differ)
    if c.get("mixed_spread") and not c.get("tied"):
        covs = covs * rs.choice([1e-4, 1.0, 1e4], size=K)[:, None, None]
    return loc, covs


def oracle_gmm(c):
    loc, covs = gmm_params(c)
    d, K, n = c["d"], c["K"], c["n"]
    scale = covs
    if d == 1 and c["layout_1d"] == "K1":
        scale = covs.reshape(K, 1)
    label = f"draw_gmm(n={n}, K={K}, d={d}, pvals={c['pvals']}, covariances {c['cov_kind']} x{c['spread']}{' x per-component 1e-4..1e4' if c.get('mixed_spread') else ''}{', tied' if c.get('tied') else ''}" + \
            (f", 1-d layout {c['layout_1d']}" if d == 1 else "") + ")"
    try:
        X, y = D.draw_gmm(n, loc, scale, np.array(c["pvals"]), random_state=c["seed"])
        if c["seed"] % 3 == 0:
            # array-likes are documented: the same parameters as nested lists / tuples / float32-free integer means
            X2, y2 = D.draw_gmm(n, np.asarray(loc).tolist(), tuple(np.asarray(scale).tolist()), list(c["pvals"]), random_state=c["seed"])
        else:
            X2, y2 = D.draw_gmm(n, loc, scale, np.array(c["pvals"]), random_state=c["seed"])
    except Exception as e:
        raise Violation(f"{label}: raised {type(e).__name__}: {e} on a valid mixture")
    if X.shape != (n, d) or y.shape != (n,):
        raise Violation(f"{label}: returned shapes {X.shape}, {y.shape}")
    if not (np.array_equal(X, X2) and np.array_equal(y, y2)):
        raise Violation(f"{label}: two calls with the same integer seed differ")
    if y.min() < 0 or y.max() >= K or not np.issubdtype(y.dtype, np.integer):
        raise Violation(f"{label}: labels outside [0,{K})")
    for k in range(K):
        pk = c["pvals"][k]
        ztest(label, f"proportion of component {k}", float(np.mean(y == k)), pk, np.sqrt(pk * (1 - pk) / n))
        check_gaussian(label + f", component {k}", X[y == k], loc[k], covs[k])
    return {"nontrivial": bool(c["cov_kind"] != "identity" or c["spread"] != 1.0), "classes": [f"d={d}", c["cov_kind"]]}


@st.composite
def bad_gmm_case(draw):
    return {"kind": draw(st.sampled_from(["len_cov", "len_p", "neg_p", "zero_p", "sum_p", "not_psd", "not_square", "neg_var_1d", "one_component"])),
            "d": draw(st.integers(1, 3)), "seed": draw(gens.seeds)}


def oracle_bad_gmm(c):
    rs = np.random.RandomState(c["seed"])
    d = c["d"]
    K = 3
    loc = rs.randn(K, d)
    covs = np.array([np.eye(d) * (1 + k) for k in range(K)])
    p = np.array([0.5, 0.25, 0.25])
    kind = c["kind"]
    if kind == "len_cov":
        covs = covs[:2]
    elif kind == "len_p":
        p = np.array([0.5, 0.5])
    elif kind == "neg_p":
        p = np.array([0.75, 0.5, -0.25])
    elif kind == "zero_p":
        p = np.array([0.5, 0.5, 0.0])
    elif kind == "sum_p":
        p = np.array([0.5, 0.25, 0.125])
    elif kind == "not_psd":
        if d == 1:
            covs = np.array([[[1.0]], [[-1.0]], [[1.0]]])
        else:
            # one clearly negative eigenvalue at a random place of the spectrum, in a random (or the canonical) basis
            lam = rs.uniform(0.5, 3.0, size=d)
            lam[rs.randint(d)] = -rs.uniform(0.3, 2.0)
            Q = np.linalg.qr(rs.randn(d, d))[0] if rs.rand() < 0.6 else np.eye(d)
            M_ = (Q * lam) @ Q.T
            covs[rs.randint(K)] = (M_ + M_.T) / 2
            if rs.rand() < 0.5:
                # components of very different spreads: each covariance is judged on its own
                covs = covs * rs.choice([1e-6, 1e-3, 1.0, 1e3, 1e6], size=K)[:, None, None]
    elif kind == "not_square":
        if d == 1:
            return {"nontrivial": False, "classes": ["skip"]}
        covs = np.ones((K, d, d + 1))
    elif kind == "neg_var_1d":
        d = 1
        loc = rs.randn(K, 1)
        covs = np.array([[1.0], [-2.0], [1.0]])
    elif kind == "one_component":
        loc, covs, p = loc[:1], covs[:1], np.array([1.0])
    try:
        with warnings.catch_warnings():
            warnings.simplefilter("ignore")
            D.draw_gmm(100, loc, covs, p, random_state=0)
    except (ValueError, TypeError):
        return {"nontrivial": True, "classes": [kind]}
    except Exception as e:
        raise Violation(f"draw_gmm with invalid parameters ({kind}) raised {type(e).__name__}: {e} instead of a ValueError/TypeError")
    if kind == "one_component":
        return {"nontrivial": False, "classes": ["one_component_accepted"]}
    raise Violation(f"draw_gmm accepted a parameter set that does not describe a mixture ({kind}: pvals={p.tolist()}, "
                    f"covariances of shape {np.shape(covs)})")


# ------------------------------------------------------------------------------------------------ Student-t
@st.composite
def student_case(draw):
    return {"d": draw(st.integers(1, 4)), "df": draw(st.sampled_from([1, 2.5, 10, 0.7, 30])), "n": draw(st.sampled_from([20000, 80000])),
            "pseed": draw(gens.seeds), "seed": draw(st.integers(0, 10 ** 6))}


def oracle_student(c):
    rs = np.random.RandomState(c["pseed"])
    d = c["d"]
    loc = rs.randn(d) * 5
    A = rs.randn(d, d)
    S = A @ A.T + 0.2 * np.eye(d)
    label = f"multivariate_student_t(n={c['n']}, d={d}, df={c['df']})"
    X = D.multivariate_student_t(c["n"], loc, S, df=c["df"], random_state=c["seed"])
    X2 = D.multivariate_student_t(c["n"], loc.tolist() if c["seed"] % 2 else loc, S.tolist() if c["seed"] % 3 == 0 else S, df=c["df"], random_state=c["seed"])
    if X.shape != (c["n"], d):
        raise Violation(f"{label}: shape {X.shape}")
    if not np.array_equal(X, X2):
        raise Violation(f"{label}: two calls with the same integer seed differ")
    L = np.linalg.cholesky(S)
    Zs = np.linalg.solve(L, (X - loc).T).T
    for j in range(d):
        kstest(label, f"whitened coordinate {j} (t with {c['df']} degrees of freedom)", Zs[:, j], stats.t(c["df"]).cdf)
        kstest(label, f"coordinate {j} standardised by its scale", (X[:, j] - loc[j]) / np.sqrt(S[j, j]), stats.t(c["df"]).cdf)
    # common radial factor: squared norm / d follows an F(d, df) law
    kstest(label, "squared Mahalanobis radius / d (F law)", (Zs ** 2).sum(1) / d, stats.f(d, c["df"]).cdf)
    return {"nontrivial": True, "classes": [f"df={c['df']}", f"d={d}"]}


# ------------------------------------------------------------------------------------------------ fixed datasets
@st.composite
def fixed_case(draw):
    which = draw(st.sampled_from(["gstm", "celeux_one", "celeux_two"]))
    c = {"which": which, "seed": draw(st.integers(0, 10 ** 6)), "n": draw(st.sampled_from([40000, 100000]))}
    if which == "gstm":
        c["alpha"] = draw(st.sampled_from([2, 0.5, 5.0]))
        c["df"] = draw(st.sampled_from([1, 3, 10]))
        c["n"] += draw(st.integers(0, 3))
    if which == "celeux_one":
        c["p"] = draw(st.sampled_from([20, 1, 3]))
        c["mu"] = draw(st.sampled_from([1.7, 0.6, 3.0]))
    return c


def oracle_fixed(c):
    which, n, seed = c["which"], c["n"], c["seed"]
    if which == "gstm":
        a, df = c["alpha"], c["df"]
        label = f"gstm(n={n}, alpha={a}, df={df})"
        X, y = D.gstm(n, alpha=a, df=df, random_state=seed)
        X2, y2 = D.gstm(n, alpha=a, df=df, random_state=seed)
        if X.shape != (n, 2) or y.shape != (n,):
            raise Violation(f"{label}: shapes {X.shape}, {y.shape}")
        if set(np.unique(y).tolist()) - {0, 1, 2, 3}:
            raise Violation(f"{label}: labels {np.unique(y).tolist()}")
        n_student = n - 3 * n // 4
        if int(np.sum(y == 3)) != n_student:
            raise Violation(f"{label}: {int(np.sum(y == 3))} Student-t samples, documented share is a quarter ({n_student})")
        means = np.array([[1, 1], [1, -1], [-1, 1], [-1, -1]], dtype=float) * a
        for k in range(3):
            ztest(label, f"share of Gaussian component {k}", float(np.sum(y == k)) / (n - n_student), 1 / 3, np.sqrt(2 / 9 / (n - n_student)))
            check_gaussian(label + f", component {k}", X[y == k], means[k], np.eye(2))
        T = X[y == 3] - means[3]
        for j in range(2):
            kstest(label, f"Student-t coordinate {j}", T[:, j], stats.t(df).cdf)
        kstest(label, "Student-t squared radius / 2 (F law)", (T ** 2).sum(1) / 2, stats.f(2, df).cdf)
    elif which == "celeux_one":
        p, mu = c["p"], c["mu"]
        label = f"celeux_one(n={n}, p={p}, mu={mu})"
        X, y = D.celeux_one(n, p=p, mu=mu, random_state=seed)
        X2, y2 = D.celeux_one(n, p=p, mu=mu, random_state=seed)
        if X.shape != (n, 5 + p) or y.shape != (n,):
            raise Violation(f"{label}: shapes {X.shape}, {y.shape}")
        means = [np.ones(5) * mu, -np.ones(5) * mu, np.zeros(5)]
        for k in range(3):
            ztest(label, f"proportion of component {k}", float(np.mean(y == k)), 1 / 3, np.sqrt(2 / 9 / n))
            check_gaussian(label + f", informative variables of component {k}", X[y == k][:, :5], means[k], np.eye(5))
            check_gaussian(label + f", noise variables within component {k}", X[y == k][:, 5:], np.zeros(p), np.eye(p))
    else:
        label = f"celeux_two(n={n})"
        X, y = D.celeux_two(n, random_state=seed)
        X2, y2 = D.celeux_two(n, random_state=seed)
        if X.shape != (n, 14) or y.shape != (n,):
            raise Violation(f"{label}: shapes {X.shape}, {y.shape}")
        means = np.array([[0, 0], [4, 0], [0, 2], [4, 2]], dtype=float)
        for k in range(4):
            ztest(label, f"proportion of component {k}", float(np.mean(y == k)), 0.25, np.sqrt(0.25 * 0.75 / n))
            check_gaussian(label + f", informative variables of component {k}", X[y == k][:, :2], means[k], np.eye(2))
            check_gaussian(label + f", independent variables 12-14 within component {k}", X[y == k][:, 11:], np.array([3.2, 3.6, 4.0]), np.eye(3))
        b = np.array([[0.5, 1], [2, 0], [0, 3], [-1, 2], [2, -4], [0.5, 0], [4, 0.5], [3, 0], [2, 1]], dtype=float).T  # 2 x 9
        off = np.array([0, 0, 0.4, 0.8, 1.2, 1.6, 2.0, 2.4, 2.8])
        r3 = np.array([[0.5, -np.sqrt(3) / 2], [np.sqrt(3) / 2, 0.5]])
        r6 = np.array([[np.sqrt(3) / 2, -0.5], [0.5, np.sqrt(3) / 2]])
        Om = np.zeros((9, 9))
        Om[:3, :3] = np.eye(3)
        Om[3:5, 3:5] = 0.5 * np.eye(2)
        Om[5:7, 5:7] = r3.T @ np.diag([1.0, 3.0]) @ r3
        Om[7:9, 7:9] = r6.T @ np.diag([2.0, 6.0]) @ r6
        G = np.column_stack([np.ones(n), X[:, :2]])
        Y = X[:, 2:11]
        coef, *_ = np.linalg.lstsq(G, Y, rcond=None)
        truth = np.vstack([off, b])
        GtG_inv = np.linalg.inv(G.T @ G)
        for j in range(9):
            for i in range(3):
                se = np.sqrt(Om[j, j] * GtG_inv[i, i])
                ztest(label, f"regression coefficient {i} of variable {j + 3}", float(coef[i, j]), float(truth[i, j]), se)
        Rres = Y - G @ truth
        check_gaussian(label + ", noise of the dependent variables 3-11", Rres, np.zeros(9), Om)
    if not (np.array_equal(X, X2) and np.array_equal(y, y2)):
        raise Violation(f"{label}: two calls with the same integer seed differ")
    return {"nontrivial": True, "classes": [which]}


@st.composite
def small_case(draw):
    return {"which": draw(st.sampled_from(["gstm", "celeux_one", "celeux_two", "student", "gmm"])), "n": draw(st.integers(1, 40)),
            "seed": draw(st.one_of(st.integers(0, 10 ** 6), st.none()))}


def oracle_small(c):
    """shapes / label ranges at small n, RandomState instances and None as random_state"""
    n, which = c["n"], c["which"]
    seeds = [c["seed"], np.random.RandomState(3)] if c["seed"] is not None else [None]
    for sd in seeds:
        try:
            if which == "gstm":
                if n < 4:
                    continue
                X, y = D.gstm(n, random_state=sd)
                want, K = (n, 2), 4
            elif which == "celeux_one":
                X, y = D.celeux_one(n, p=3, random_state=sd)
                want, K = (n, 8), 3
            elif which == "celeux_two":
                X, y = D.celeux_two(n, random_state=sd)
                want, K = (n, 14), 4
            elif which == "student":
                X = D.multivariate_student_t(n, np.zeros(2), np.eye(2), df=3, random_state=sd)
                y, want, K = np.zeros(n, dtype=int), (n, 2), 1
            else:
                X, y = D.draw_gmm(n, np.array([[0.0, 0], [3, 3]]), np.array([np.eye(2), np.eye(2)]), np.array([0.5, 0.5]), random_state=sd)
                want, K = (n, 2), 2
        except Exception as e:
            raise Violation(f"{which}(n={n}, random_state={sd!r}) raised {type(e).__name__}: {e}")
        if X.shape != want or len(y) != n or not np.all(np.isfinite(X)):
            raise Violation(f"{which}(n={n}): shapes {X.shape}, {np.shape(y)}; expected {want}")
        if np.min(y) < 0 or np.max(y) >= K:
            raise Violation(f"{which}(n={n}): labels outside [0,{K})")
    return {"nontrivial": True, "classes": [which]}


@st.composite
def component_case(draw):
    """well separated components, some of which receive no sample: every sample must lie next to the mean its label names"""
    K = draw(st.integers(2, 6))
    d = draw(st.integers(1, 3))
    mode = draw(st.sampled_from(["tiny_share", "few_samples", "both"]))
    n = draw(st.integers(1, 2 * K)) if mode != "tiny_share" else draw(st.integers(50, 400))
    tiny = sorted(draw(st.sets(st.integers(0, K - 1), min_size=1, max_size=K - 1))) if mode != "few_samples" else []
    return {"K": K, "d": d, "n": n, "tiny": tiny, "seed": draw(st.integers(0, 10 ** 6)), "which": draw(st.sampled_from(["gmm", "gmm", "celeux_one", "gstm"]))}


def oracle_component(c):
    K, d, n, seed = c["K"], c["d"], c["n"], c["seed"]
    if c["which"] == "gmm":
        loc = np.array([[100.0 * (k + 1) * (1 if j % 2 == 0 else -1) for j in range(d)] for k in range(K)])
        covs = np.array([np.eye(d) for _ in range(K)])
        p = np.ones(K)
        for k in c["tiny"]:
            p[k] = 2.0 ** -20
        rest = [k for k in range(K) if k not in c["tiny"]]
        p[rest] = (1.0 - 2.0 ** -20 * len(c["tiny"])) / len(rest)
        if np.sum(p) != 1:
            p[rest[0]] += 1 - np.sum(p)
        if np.sum(p) != 1:
            return {"nontrivial": False, "classes": ["proportions_not_exact"]}
        label = f"draw_gmm(n={n}, K={K}, d={d}, pvals={p.tolist()})"
        X, y = D.draw_gmm(n, loc, covs if d > 1 else covs.reshape(K, 1), p, random_state=seed)
        means, sig, dims = loc, 1.0, slice(None)
    elif c["which"] == "celeux_one":
        n = min(n, 6)
        label = f"celeux_one(n={n}, mu=50)"
        X, y = D.celeux_one(n, p=2, mu=50.0, random_state=seed)
        means, sig, dims = np.array([np.ones(5) * 50, -np.ones(5) * 50, np.zeros(5)]), 1.0, slice(0, 5)
    else:
        n = max(4, min(n, 9))
        label = f"gstm(n={n}, alpha=60)"
        X, y = D.gstm(n, alpha=60.0, df=5, random_state=seed)
        means, sig, dims = np.array([[1, 1], [1, -1], [-1, 1], [-1, -1]], dtype=float) * 60, 1.0, slice(None)
    y = np.asarray(y).astype(int)
    absent = sorted(set(range(len(means))) - set(y.tolist()))
    for i in range(len(X)):
        dist = np.abs(X[i, dims] - means[y[i]])
        limit = 9.0 * sig if not (c["which"] == "gstm" and y[i] == 3) else 60.0
        if np.max(dist) > limit:
            raise Violation(f"{label}: sample {i} = {X[i, dims].tolist()} carries label {y[i]} but is {np.max(dist):.1f} away from that "
                            f"component's mean {means[y[i]].tolist()} (components without any sample in this draw: {absent})")
    return {"nontrivial": bool(absent), "classes": [c["which"], "absent_component" if absent else "all_present"]}


def subs():
    return [Sub("label_names_component", component_case(), oracle_component, 600, 8000, "samples lie at the mean named by their label, also when components receive no sample"),
            Sub("draw_gmm", gmm_case(), oracle_gmm, 40, 1200, "Gaussian mixtures"),
            Sub("draw_gmm_invalid", bad_gmm_case(), oracle_bad_gmm, 120, 1500, "parameter sets that are not mixtures"),
            Sub("student_t", student_case(), oracle_student, 24, 600, "multivariate Student-t"),
            Sub("fixed_datasets", fixed_case(), oracle_fixed, 24, 600, "gstm, celeux_one, celeux_two"),
            Sub("small_n", small_case(), oracle_small, 200, 3000, "shapes, labels, random_state kinds at small n")]

"""C19 - the printed KAURI tree is a faithful description of the fitted tree."""
import contextlib
import io
import warnings

import numpy as np
from hypothesis import strategies as st

from .. import estimators as E
from .. import gens
from ..harness import Sub, Violation

QUICK_SCALE = 3  # quick budgets below are multiplied by this (kept at about half a minute on 8 processes)
THOROUGH_SCALE = 12  # thorough budgets below are multiplied by this (about ten minutes on 16 processes)

RULE = ("fitted Kauri trees (n up to 40, d up to 5, ties, data scaled by 1e-12..1e5), feature-name lists of unique generated strings (letters, "
        "digits, spaces, punctuation) of length >= d, between max-used-index+1 and d, too short, or None; stdout is parsed "
        "by a recursive-descent reader of the printed format into nested rules which are evaluated on query points "
        "(random, exactly on thresholds, just above thresholds, far away). Non-trivial: depth >= 2 and >= 2 features used.")
ASSUMPTIONS = ["'too few names' means a list that cannot name a feature the tree uses (shorter than the largest used "
               "feature index + 1); any exception counts as a rejection",
               "generated names never contain line breaks; they may look like rules themselves ('age <= 30'): the printed lines are "
               "read from the right, the threshold being the last token"]

name_alphabet = "abcXYZ019_ -.:%/é{}$()[]\\'\"#*+^|<>=&~`@!?,;"  # TeX-like, format-like, markup-like labels are legal names


@st.composite
def tree_case(draw, large=False):
    s = draw(E.kauri_spec(n_max=300 if large else 40, d_max=5, kinds=("normal", "grid", "grid2")))
    if large:
        s["n"] = draw(st.integers(100, 300))
    s["kernel"]["form"] = "named"
    s["kernel"]["name"] = draw(st.sampled_from(["linear", "rbf", "cosine"]))
    s["min_samples_leaf"] = 1
    s["min_samples_split"] = 2
    s["max_leaves"] = draw(st.sampled_from([None, 8, 4] if not large else [None, 60, 25]))
    s["max_clusters"] = draw(st.sampled_from([3, 2, 5] if not large else [4, 8, 12]))
    d = s["d"]
    plain = st.text(alphabet=name_alphabet, min_size=1, max_size=8).map(str.strip).filter(lambda z: len(z) > 0)
    # names of binned indicator columns look like rules themselves ("age <= 30", "age > 30"): the printed format stays readable
    # from the right (the threshold is the last token)
    ruleish = st.builds(lambda a, op, b: f"{a} {op} {b}", st.sampled_from(["age", "x", "income", "t 1"]), st.sampled_from(["<=", ">", "<", ">="]),
                        st.sampled_from(["30", "0.5", "50K", "-1", "1e-3"]))
    names = draw(st.lists(st.one_of(plain, plain, ruleish), min_size=d + 2, max_size=d + 2, unique=True))
    s["x"]["scale"] = draw(st.sampled_from([1.0, 1e-7, 1e5, 1e-3, 1.0, 1e-12]))
    return {"spec": s, "names": names, "mode": draw(st.sampled_from(["none", "exact", "longer", "minimal", "short", "array"])),
            "qseed": draw(gens.seeds)}


class ParseError(Exception):
    pass


def parse(lines, resolve):
    """Recursive-descent reader: returns nested rules ('leaf', cluster) / ('split', feature, thr, left, right)."""
    pos = [0]

    def node(depth):
        pre = "| " * depth
        if pos[0] >= len(lines) or not lines[pos[0]].startswith(pre + "Node "):
            raise ParseError(f"line {pos[0]}: expected '{pre}Node <id>', got {lines[pos[0]] if pos[0] < len(lines) else 'EOF'!r}")
        node_id = int(lines[pos[0]][len(pre) + 5:])
        pos[0] += 1
        ln = lines[pos[0]]
        if ln.startswith(pre + " Cluster: "):
            pos[0] += 1
            return ("leaf", int(ln[len(pre) + 10:]), node_id)
        if not ln.startswith(pre + "|=") or " <= " not in ln:
            raise ParseError(f"line {pos[0]}: expected a '<=' rule at depth {depth}, got {ln!r}")
        name, thr = ln[len(pre) + 2:].rsplit(" <= ", 1)
        pos[0] += 1
        left = node(depth + 1)
        ln2 = lines[pos[0]]
        if not ln2.startswith(pre + "|=") or " > " not in ln2:
            raise ParseError(f"line {pos[0]}: expected the matching '>' rule, got {ln2!r}")
        name2, thr2 = ln2[len(pre) + 2:].rsplit(" > ", 1)
        if name2 != name or thr2 != thr:
            raise ParseError(f"'<=' rule on {name!r} {thr} is followed by a '>' rule on {name2!r} {thr2}")
        pos[0] += 1
        right = node(depth + 1)
        return ("split", resolve(name), float(thr), left, right, node_id)

    tree = node(0)
    if pos[0] != len(lines):
        raise ParseError(f"{len(lines) - pos[0]} trailing lines")
    return tree


def apply(rule, x):
    while rule[0] == "split":
        rule = rule[3] if x[rule[1]] <= rule[2] else rule[4]
    return rule[1]


def oracle_tree(case):
    from gemclus.tree import print_kauri_tree
    s = case["spec"]
    X = E.build_kauri_data(s) * s["x"].get("scale", 1.0)
    label = E.label(s)
    est, y = E.build_kauri(s, X)
    with warnings.catch_warnings():
        warnings.simplefilter("ignore")
        est.fit(X, y)
    t = est.tree_
    used = sorted({f for f in t.features if f is not None})
    d = s["d"]
    mode = case["mode"]
    names = case["names"]
    need = (max(used) + 1) if used else 0
    if mode == "none":
        fn = None
    elif mode == "exact":
        fn = names[:d]
    elif mode == "longer":
        fn = names[:d + 2]
    elif mode == "array":
        fn = np.array(names[:d])
    elif mode == "minimal":
        fn = names[:max(need, 1)]
    else:
        fn = names[:max(need - 1, 0)]
    buf = io.StringIO()
    should_fail = mode == "short" and used and len(fn) < need
    try:
        with contextlib.redirect_stdout(buf):
            print_kauri_tree(est, fn if (fn is None or len(fn) > 0 or mode == "short") else None)
        raised = None
    except Exception as e:
        raised = e
    if should_fail:
        if raised is None:
            raise Violation(f"{label}: feature_names={list(fn)} cannot name used feature {max(used)} but print_kauri_tree "
                            f"printed a tree instead of raising")
        return {"nontrivial": bool(max(t.depths) >= 2 and len(used) >= 2), "classes": ["too_few_names"]}
    if raised is not None:
        raise Violation(f"{label}: print_kauri_tree(feature_names={None if fn is None else list(fn)}) raised "
                        f"{type(raised).__name__}: {raised}")
    lines = buf.getvalue().split("\n")
    if lines and lines[-1] == "":
        lines = lines[:-1]

    def resolve(name):
        if fn is None or (mode == "short" and len(fn) == 0):
            if not (name.startswith("X[:, ") and name.endswith("]")):
                raise ParseError(f"default feature label expected, got {name!r}")
            return int(name[5:-1])
        lst = list(fn)
        if lst.count(name) != 1:
            raise ParseError(f"printed feature label {name!r} is not one of the supplied names {lst}")
        return lst.index(name)

    try:
        rules = parse(lines, resolve)
    except (ParseError, ValueError, IndexError) as e:
        raise Violation(f"{label}: printed tree cannot be read back as nested threshold rules: {e}\n" + "\n".join(lines[:12]))
    rs = np.random.RandomState(case["qseed"])
    n = len(X)
    Q = [X[i] for i in range(min(n, 10))]
    Q += [X[rs.randint(n)] + rs.randn(d) * rs.choice([0.3, 50.0]) * s["x"].get("scale", 1.0) for _ in range(10)]
    for nd in range(t.n_nodes):
        if t.children_left[nd] != -1:
            q = X[rs.randint(n)].copy()
            q[t.features[nd]] = t.thresholds[nd]
            Q.append(q)
            q2 = q.copy()
            q2[t.features[nd]] = np.nextafter(t.thresholds[nd], np.inf)
            Q.append(q2)
            q3 = q.copy()
            q3[t.features[nd]] = np.nextafter(t.thresholds[nd], -np.inf)
            Q.append(q3)
    Q = np.array(Q)
    pred = est.predict(Q)
    for q, p in zip(Q, pred):
        got = apply(rules, q)
        if got != p:
            raise Violation(f"{label}: the printed rules assign cluster {got} to {q.tolist()}, predict gives {p}\n" + "\n".join(lines[:14]))
    # integer-typed queries (accepted by predict) must follow the same printed rules
    Qi = np.round(Q[np.all(np.abs(Q) < 1e9, axis=1)]).astype(np.int64)
    if len(Qi):
        for q, p in zip(Qi, est.predict(Qi)):
            got = apply(rules, q.astype(float))
            if got != p:
                raise Violation(f"{label}: the printed rules assign cluster {got} to the integer point {q.tolist()}, predict gives {p}\n" + "\n".join(lines[:14]))
    return {"nontrivial": bool(max(t.depths) >= 2 and len(used) >= 2), "classes": ["names:" + mode, f"depth:{min(max(t.depths), 4)}"]}


@st.composite
def refuse_case(draw):
    return {"kind": draw(st.sampled_from(["unfitted", "foreign_estimator", "string", "none", "fitted_linear"]))}


def oracle_refuse(case):
    from gemclus.tree import Kauri, print_kauri_tree
    from gemclus.linear import LinearModel
    obj = {"unfitted": lambda: Kauri(), "foreign_estimator": lambda: LinearModel(), "string": lambda: "tree",
           "none": lambda: None,
           "fitted_linear": lambda: LinearModel(max_iter=1, random_state=0).fit(np.random.RandomState(0).randn(6, 2))}[case["kind"]]()
    buf = io.StringIO()
    try:
        with contextlib.redirect_stdout(buf):
            print_kauri_tree(obj)
    except Exception:
        return {"nontrivial": True, "classes": [case["kind"]]}
    raise Violation(f"print_kauri_tree accepted a {case['kind']} object and printed {buf.getvalue()[:80]!r}")


def subs():
    return [Sub("round_trip_deep", tree_case(large=True), oracle_tree, 40, 1000, "deep trees on 100-300 samples"),
            Sub("round_trip", tree_case(), oracle_tree, 2000, 40000, "print -> parse -> evaluate == predict"),
            Sub("refusals", refuse_case(), oracle_refuse, 30, 100, "unfitted / foreign objects", shards=False)]

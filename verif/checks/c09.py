"""C09 - KAURI trees respect their structural limits and reproduce their own partition."""
import warnings

import numpy as np
from hypothesis import strategies as st

from .. import build
from .. import estimators as E
from .. import gens
from ..harness import Sub, Violation
from ..refs import kauri_ref as KR

RULE = ("real Kauri fits: n in [1,40], d in [1,4], data with ties and constant columns, all combinations of max_clusters, "
        "max_depth, min_samples_split, min_samples_leaf, max_features, max_leaves (valid by the documented rule), every "
        "named kernel, callables and precomputed matrices, seeds; query points random / on thresholds / far away; run on "
        "every variant of the extension. Non-trivial: at least 3 leaves or at least two structural limits binding.")
ASSUMPTIONS = ["regions are derived leaf by leaf from the path constraints (a different computation from recursive routing)"]

VARIANTS, SKIPPED = build.load_variants()


def evidence_extra():
    return {"variants": sorted(VARIANTS), "variants_skipped": SKIPPED}


@st.composite
def fit_case(draw, large=False):
    if large:
        s = draw(E.kauri_spec(n_max=320, d_max=4, kinds=("normal", "grid", "offset")))
        s["n"] = draw(st.integers(120, 320))
        s["kernel"]["form"] = draw(st.sampled_from(["named", "precomputed", "psd"]))
        s["max_depth"] = draw(st.sampled_from([None, 8, 12]))
        s["max_leaves"] = draw(st.sampled_from([None, 40, 12]))
        s["max_clusters"] = draw(st.sampled_from([3, 6, 10, 2]))
        return {"spec": s, "qseed": draw(gens.seeds), "variants": ["so"]}
    return {"spec": draw(E.kauri_spec(n_max=40, d_max=4)), "qseed": draw(gens.seeds)}


@st.composite
def many_clusters_case(draw):
    """data with 8-14 real groups and as many clusters allowed: late splits move whole leaves between existing clusters"""
    s = draw(E.kauri_spec(n_max=220, d_max=3, kinds=("blobs",)))
    s["n"] = draw(st.integers(90, 220))
    s["d"] = s["x"]["d"] = draw(st.integers(2, 3))
    s["x"]["blobs"] = draw(st.integers(8, 14))
    s["x"]["blob_range"] = draw(st.sampled_from([10.0, 6.0]))
    s["x"]["blob_std"] = draw(st.sampled_from([1.0, 0.4, 2.0]))
    s["x"]["blob_round"] = draw(st.booleans())
    s["kernel"]["form"] = "named"
    s["kernel"]["name"] = draw(st.sampled_from(["rbf", "linear", "laplacian", "rbf"]))
    s["max_clusters"] = draw(st.integers(8, 14))
    s["max_leaves"] = draw(st.sampled_from([None, 3 * s["max_clusters"], 2 * s["max_clusters"] - 1, s["max_clusters"] + 3]))
    s["max_depth"] = draw(st.sampled_from([None, 8]))
    s["min_samples_leaf"] = draw(st.sampled_from([1, 2]))
    s["min_samples_split"] = 2 * s["min_samples_leaf"]
    s["max_features"] = None
    return {"spec": s, "qseed": draw(gens.seeds), "variants": ["so"]}


def leaf_regions(t):
    """{leaf node: [(feature, is_left, threshold), ...]} from the array-encoded tree."""
    regions = {}

    def walk(node, cons):
        if t.children_left[node] == -1:
            regions[node] = cons
            return
        f, thr = t.features[node], t.thresholds[node]
        walk(t.children_left[node], cons + [(f, True, thr)])
        walk(t.children_right[node], cons + [(f, False, thr)])

    walk(0, [])
    return regions


def leaf_regions_from(t, start):
    regions = {}

    def walk(node, cons):
        if t.children_left[node] == -1:
            regions[node] = cons
            return
        f, thr = t.features[node], t.thresholds[node]
        walk(t.children_left[node], cons + [(f, True, thr)])
        walk(t.children_right[node], cons + [(f, False, thr)])

    walk(start, [])
    return regions


def region_label(t, regions, x):
    hits = [nd for nd, cons in regions.items() if all((x[f] <= thr) == is_left for f, is_left, thr in cons)]
    if len(hits) != 1:
        return None
    return t.target[hits[0]]


def check_tree(label, name, est, s, X, y, Kmat, qseed, subsets):
    t = est.tree_
    n = len(X)
    labels = est.labels_
    n_nodes = t.n_nodes
    arrays = [t.children_left, t.children_right, t.target, t.thresholds, t.features, t.gains, t.depths]
    if any(len(a) != n_nodes for a in arrays):
        raise Violation(f"{label} [{name}]: tree arrays have lengths {[len(a) for a in arrays]}, n_nodes={n_nodes}")
    leaves = [i for i in range(n_nodes) if t.children_left[i] == -1]
    internal = [i for i in range(n_nodes) if t.children_left[i] != -1]
    if any((t.children_left[i] == -1) != (t.children_right[i] == -1) for i in range(n_nodes)):
        raise Violation(f"{label} [{name}]: a node has exactly one child")
    if n_nodes != 2 * len(leaves) - 1:
        raise Violation(f"{label} [{name}]: {n_nodes} nodes for {len(leaves)} leaves (expected 2*leaves-1)")
    max_leaves = s["max_leaves"] if s["max_leaves"] is not None else n
    if len(leaves) > max(max_leaves, 1):
        raise Violation(f"{label} [{name}]: {len(leaves)} leaves exceed max_leaves={s['max_leaves']}")
    if s["max_depth"] is not None and max(t.depths) > s["max_depth"]:
        raise Violation(f"{label} [{name}]: depth {max(t.depths)} exceeds max_depth={s['max_depth']}")
    for i in internal:
        for c in (t.children_left[i], t.children_right[i]):
            if t.depths[c] != t.depths[i] + 1:
                raise Violation(f"{label} [{name}]: depth of node {c} is {t.depths[c]}, its parent has depth {t.depths[i]}")
    if t.depths[0] != 0 or len(t) != n_nodes or t.get_depth() != max(t.depths):
        raise Violation(f"{label} [{name}]: root depth {t.depths[0]}, len(tree)={len(t)}, get_depth()={t.get_depth()} for "
                        f"{n_nodes} nodes with depths {list(t.depths)}")
    for i in range(n_nodes):
        if t.get_depth(i) != t.depths[i]:
            raise Violation(f"{label} [{name}]: get_depth({i})={t.get_depth(i)} but the node is at depth {t.depths[i]}")
    for lf in leaves:
        if t.thresholds[lf] is not None or t.features[lf] is not None or t.gains[lf] != 0 or t.children_right[lf] != -1:
            raise Violation(f"{label} [{name}]: leaf node {lf} carries split information "
                            f"(feature {t.features[lf]}, threshold {t.thresholds[lf]}, gain {t.gains[lf]})")
    kids = sorted([t.children_left[i] for i in internal] + [t.children_right[i] for i in internal])
    if kids != list(range(1, n_nodes)):
        raise Violation(f"{label} [{name}]: children ids {kids} are not every non-root node exactly once")
    uniq = np.unique(labels)
    if len(uniq) > s["max_clusters"] or not np.array_equal(uniq, np.arange(len(uniq))):
        raise Violation(f"{label} [{name}]: labels {uniq.tolist()} are not contiguous from 0 within max_clusters={s['max_clusters']}")
    regions = leaf_regions(t)
    masks = {}
    for nd in range(n_nodes):
        masks[nd] = KR_route_mask(t, X, nd)
    for lf in leaves:
        cnt = int(masks[lf].sum())
        if cnt < s["min_samples_leaf"]:
            raise Violation(f"{label} [{name}]: leaf node {lf} holds {cnt} samples, min_samples_leaf={s['min_samples_leaf']}")
        if len(np.unique(labels[masks[lf]])) != 1 or labels[masks[lf]][0] != t.target[lf]:
            raise Violation(f"{label} [{name}]: leaf node {lf} (target {t.target[lf]}) holds samples labelled "
                            f"{np.unique(labels[masks[lf]]).tolist()}")
        if len(np.unique(est.leaves_[masks[lf]])) != 1:
            raise Violation(f"{label} [{name}]: samples of leaf node {lf} carry different leaves_ ids")
    if len(np.unique(est.leaves_)) != len(leaves):
        raise Violation(f"{label} [{name}]: leaves_ has {len(np.unique(est.leaves_))} ids for {len(leaves)} leaves")
    for nd in internal:
        cnt = int(masks[nd].sum())
        if cnt < s["min_samples_split"]:
            raise Violation(f"{label} [{name}]: node {nd} with {cnt} samples was split, min_samples_split={s['min_samples_split']}")
        f, thr = t.features[nd], t.thresholds[nd]
        if not (0 <= f < X.shape[1]) or thr not in X[masks[nd], f]:
            raise Violation(f"{label} [{name}]: node {nd} splits on X[:,{f}]<={thr}, not an observed value inside the node")
        if not t.gains[nd] > 0:
            raise Violation(f"{label} [{name}]: node {nd} was split with non-positive recorded gain {t.gains[nd]}")
    want_sub = X.shape[1] if s["max_features"] is None else min(X.shape[1], max(s["max_features"], 1))
    for fs in subsets:
        if len(fs) != want_sub or len(set(fs.tolist())) != len(fs) or fs.min() < 0 or fs.max() >= X.shape[1]:
            raise Violation(f"{label} [{name}]: candidate feature subset {fs.tolist()} is not {want_sub} distinct features of {X.shape[1]}")
    # routing
    pred = est.predict(X)
    if not np.array_equal(pred, labels):
        raise Violation(f"{label} [{name}]: predict(X_train) {pred.tolist()} != labels_ {labels.tolist()}")
    rs = np.random.RandomState(qseed)
    Q = [X[rs.randint(n)] + rs.randn(X.shape[1]) * rs.choice([0.0, 0.5, 100.0]) for _ in range(12)]
    for nd in internal[:6]:
        q = X[rs.randint(n)].copy()
        q[t.features[nd]] = t.thresholds[nd]
        Q.append(q)
        q2 = q.copy()
        q2[t.features[nd]] = np.nextafter(t.thresholds[nd], np.inf)
        Q.append(q2)
    Q = np.array(Q)
    got = est.predict(Q)
    for q, gq in zip(Q, got):
        want = region_label(t, regions, q)
        if want is None:
            raise Violation(f"{label} [{name}]: point {q.tolist()} is not in exactly one leaf region")
        if gq != want:
            raise Violation(f"{label} [{name}]: predict gives {gq} for {q.tolist()}, the leaf region containing it is labelled {want}")
    for nd in internal[:4]:
        # routing started below the root answers for the sub-tree hanging there
        sub_cons = {lf: cons for lf, cons in leaf_regions_from(t, nd).items()}
        got_nd = t.predict(Q, nd)
        for q, gq in zip(Q, got_nd):
            hits = [lf for lf, cons in sub_cons.items() if all((q[f] <= thr) == is_left for f, is_left, thr in cons)]
            if len(hits) != 1 or gq != t.target[hits[0]]:
                raise Violation(f"{label} [{name}]: tree_.predict from node {nd} gives {gq} for {q.tolist()}, the leaf of that "
                                f"sub-tree containing it is {hits}")
    Qi = np.round(Q[np.all(np.abs(Q) < 1e9, axis=1)]).astype(np.int64)
    if len(Qi):
        for q, gq in zip(Qi, est.predict(Qi)):
            want = region_label(t, regions, q.astype(float))
            if gq != want:
                raise Violation(f"{label} [{name}]: predict gives {gq} for the integer-typed point {q.tolist()}, the leaf region containing it is labelled {want}")
    sc = est.score(X, y)
    ref = KR.J(pred, Kmat)
    if abs(sc - ref) > 1e-9 * max(1.0, abs(ref), n * float(np.max(np.abs(Kmat)))):
        raise Violation(f"{label} [{name}]: score {sc!r} != kernel-KMeans objective of the predicted labels {ref!r}")
    if y is not None:
        # the objective is a sum over ordered pairs of the matrix that is handed in: scoring with an affinity that is not
        # symmetric (a k-nearest-neighbour or row-normalised affinity) must follow the same definition
        Ka = np.ascontiguousarray(np.asarray(y) + 0.25 * float(np.max(np.abs(Kmat)) + 1.0) * np.triu(rs.rand(n, n), 1))
        try:
            sc_a = est.score(X, Ka)
        except Exception as e:
            raise Violation(f"{label} [{name}]: score with a non-symmetric affinity raised {type(e).__name__}: {e}")
        ref_a = KR.J(pred, Ka)
        if not np.isfinite(sc_a) or abs(sc_a - ref_a) > 1e-9 * max(1.0, abs(ref_a), n * float(np.max(np.abs(Ka)))):
            raise Violation(f"{label} [{name}]: score with a non-symmetric affinity is {sc_a!r}, the objective "
                            f"sum_k sum_(i,j in C_k) K[i,j] / |C_k| of the predicted labels is {ref_a!r}")
    # held-out / partial data: score must be the objective of the predicted labels there too (cluster ids may be skipped)
    for trial in range(3):
        if len(uniq) >= 2 and trial == 0:
            drop = uniq[rs.randint(len(uniq) - 1)] if len(uniq) > 1 else -1
            idx = np.where(labels != drop)[0]
        else:
            idx = np.sort(rs.choice(n, size=rs.randint(1, n + 1), replace=False))
        if len(idx) == 0:
            continue
        Xs = np.ascontiguousarray(X[idx])
        ys = None if y is None else np.ascontiguousarray(np.asarray(y)[idx][:, idx])
        if s["kernel"]["form"] in ("named", "callable"):
            # the named kernel / the callable evaluated on the given rows (a sub-block of the full matrix differs in the last
            # digits on badly conditioned data: scikit-learn's rbf uses the dot-product expansion of distances)
            from sklearn.metrics import pairwise_kernels as _pk
            Ks = np.ascontiguousarray(_pk(Xs, metric=s["kernel"]["name"]) if s["kernel"]["form"] == "named" else E.kauri_ref_kernel(s, Xs))
        else:
            Ks = np.ascontiguousarray(Kmat[idx][:, idx])
        try:
            sc_s = est.score(Xs, ys)
        except Exception as e:
            raise Violation(f"{label} [{name}]: score on a subset of the training rows raised {type(e).__name__}: {e}")
        ref_s = KR.J(labels[idx], Ks)
        if not np.isfinite(sc_s) or abs(sc_s - ref_s) > 1e-9 * max(1.0, abs(ref_s), n * float(np.max(np.abs(Kmat)))):
            raise Violation(f"{label} [{name}]: score on rows {idx.tolist()} (labels {labels[idx].tolist()}) is {sc_s!r}, the "
                            f"objective of the predicted labels is {ref_s!r}")
    binding = sum([len(leaves) == max_leaves, s["max_depth"] is not None and max(t.depths) == s["max_depth"],
                   len(uniq) == s["max_clusters"], any(int(masks[lf].sum()) < 2 * s["min_samples_leaf"] for lf in leaves)])
    return len(leaves), binding


def KR_route_mask(t, X, node):
    from .c08 import route_mask
    return route_mask(t, X, node)


def oracle_fit(case):
    import gemclus.tree.kauri as kauri_mod
    s = case["spec"]
    X = E.build_kauri_data(s)
    label = E.label(s)
    from sklearn.metrics import pairwise_kernels
    Kmat = E.kauri_ref_kernel(s, X) if s["kernel"]["form"] != "named" else \
        np.ascontiguousarray(pairwise_kernels(X, metric=s["kernel"]["name"]), dtype=np.float64)
    out = None
    for name, mod in VARIANTS.items():
        if case.get("variants") and name not in case["variants"]:
            continue
        est, y = E.build_kauri(s, X)
        subsets = []

        def spy(*args, _mod=mod):
            subsets.append(np.array(args[9], copy=True))
            return _mod.find_best_split(*args)

        o1, o2 = kauri_mod.find_best_split, kauri_mod.gemini_objective
        kauri_mod.find_best_split, kauri_mod.gemini_objective = spy, mod.gemini_objective
        try:
            with warnings.catch_warnings():
                warnings.simplefilter("ignore")
                try:
                    est.fit(X, y)
                except Exception as e:
                    raise Violation(f"{label} [{name}]: fit raised {type(e).__name__}: {e}")
                out = check_tree(label, name, est, s, X, y, Kmat, case["qseed"], subsets)
        finally:
            kauri_mod.find_best_split, kauri_mod.gemini_objective = o1, o2
    n_leaves, binding = out
    return {"nontrivial": bool(n_leaves >= 3 or binding >= 2), "classes": [f"leaves:{min(n_leaves, 6)}", "kernel:" + s["kernel"]["form"]],
            "counts": {"leaves": n_leaves, "binding_limits": binding}}


def subs():
    return [Sub("fits", fit_case(), oracle_fit, 800, 30000, "fitted trees x variants"),
            Sub("fits_many_clusters", many_clusters_case(), oracle_fit, 800, 20000, "90-220 samples in 8-14 groups, 8-14 clusters allowed (imported extension only)"),
            Sub("fits_large", fit_case(large=True), oracle_fit, 40, 1200, "trees on 120-320 samples (deep trees; imported extension only)")]

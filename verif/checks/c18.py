"""C18 - predictions are per-sample functions of the fitted model."""
import warnings

import numpy as np
from hypothesis import strategies as st

from .. import estimators as E
from .. import gens
from ..harness import Sub, Violation
from ..spy import BatchRecorder, rows_to_indices

QUICK_SCALE = 4  # quick budgets below are multiplied by this (kept at about half a minute on 8 processes)
THOROUGH_SCALE = 12  # thorough budgets below are multiplied by this (about ten minutes on 16 processes)

RULE = ("fitted inductive estimators (all gradient models but the nonparametric ones, and Kauri), new query arrays built "
        "from fresh draws and training rows; index sets = subsets, permutations, repeated rows, single rows. "
        "predict_proba(X[idx]) must equal predict_proba(X)[idx] (1e-10), labels whenever the top-two margin exceeds 1e-8, "
        "Kauri routing exactly. Non-trivial: an index set that is neither empty nor everything on predictions with >=2 "
        "clusters.")
ASSUMPTIONS = ["BLAS may sum in another order for another batch shape: probabilities are compared to 1e-10, labels only "
               "where the arg-max is not a numerical tie"]

INDUCTIVE = [c for c in E.GRADIENT_MODELS if c not in E.CATEGORICAL]


@st.composite
def case_strategy(draw, kauri=False):
    if kauri:
        s = draw(E.kauri_spec(n_max=30, d_max=4))
        s["kernel"]["form"] = draw(st.sampled_from(["named", "callable"]))
    else:
        s = draw(E.est_spec(classes=INDUCTIVE, n_max=14, d_max=4, iter_max=3, k_max=4, hidden_max=4, n_min=3,
                            kernel_forms=("named", "callable"), metric_forms=("named", "callable"),
                            xkinds=("normal", "grid", "scaled", "blobs", "sentinel")))
        if s["x"]["xkind"] == "sentinel" and s["cls"] not in ("Douglas", "LinearModel", "MLPModel", "SparseLinearModel", "RIM"):
            s["x"]["xkind"] = "normal"  # kernels and metrics of 1e15-valued samples are a matter for C17, not for this check
    m = draw(st.integers(1, 12))
    idx = draw(st.lists(st.integers(0, m - 1), min_size=0, max_size=m + 3))
    return {"spec": s, "m": m, "idx": idx, "qseed": draw(gens.seeds), "mode": draw(st.sampled_from(["subset", "perm", "single", "all"]))}


def queries(s, X, m, qseed):
    rs = np.random.RandomState(qseed)
    d = X.shape[1]
    Q = []
    for _ in range(m):
        r = rs.randint(3)
        if r == 0:
            Q.append(X[rs.randint(len(X))])
        elif r == 1:
            Q.append(X[rs.randint(len(X))] + rs.randn(d) * 0.1)
        else:
            Q.append(X.mean(0) + rs.randn(d) * (X.std() + 1.0) * 3)
    Q = np.array(Q, dtype=np.float64)
    if E._data_nonneg(s) if s["cls"] != "Kauri" else (s["kernel"]["name"] in gens.NONNEG_KERNELS):
        Q = np.abs(Q)
    aff = s.get("aff")
    if aff and aff.get("name") == "haversine":
        Q = np.clip(Q, -1.5, 1.5)
    return np.ascontiguousarray(Q)


def oracle(case):
    s = case["spec"]
    kauri = s["cls"] == "Kauri"
    label = E.label(s)
    X = E.build_kauri_data(s) if kauri else E.build_data(s)
    est, y = (E.build_kauri(s, X) if kauri else E.build(s, X))
    with warnings.catch_warnings():
        warnings.simplefilter("ignore")
        with np.errstate(all="ignore"):
            try:
                est.fit(X, y)
            except Exception as e:
                return {"nontrivial": False, "classes": [s["cls"] + ":fit_raised"], "note": f"{type(e).__name__}: {e}"}
            Q = queries(s, X, case["m"], case["qseed"])
            m = len(Q)
            mode = case["mode"]
            rs = np.random.RandomState(case["qseed"] + 1)
            if mode == "perm":
                idx = rs.permutation(m)
            elif mode == "single":
                idx = np.array([rs.randint(m)])
            elif mode == "all":
                idx = np.arange(m)
            else:
                idx = np.array([i for i in case["idx"] if i < m], dtype=int)
            full_pred = est.predict(Q)
            # the fitted model is all a prediction depends on: a copy of it (copy.deepcopy, pickle) predicts alike
            import copy
            import pickle
            twins = [("copy.deepcopy", copy.deepcopy(est))]
            try:
                twins.append(("pickle", pickle.loads(pickle.dumps(est))))
            except Exception:
                pass  # user-written lambdas are not picklable
            for how, twin in twins:
                tp = twin.predict(Q)
                if not np.array_equal(tp, full_pred):
                    raise Violation(f"{label}: the model restored through {how} predicts {np.asarray(tp).tolist()}, the fitted "
                                    f"model {np.asarray(full_pred).tolist()}")
                if not kauri and not np.array_equal(twin.predict_proba(Q), est.predict_proba(Q)):
                    raise Violation(f"{label}: the model restored through {how} gives other probabilities than the fitted model")
                if hasattr(twin, "find_active_points") and list(twin.find_active_points(Q)) != list(est.find_active_points(Q)):
                    raise Violation(f"{label}: find_active_points differs on the model restored through {how}")
            sub_pred = est.predict(Q[idx]) if len(idx) else np.zeros(0, dtype=int)
            if kauri:
                if not np.array_equal(sub_pred, full_pred[idx]):
                    raise Violation(f"{label}: routing rows {idx.tolist()} alone gives {sub_pred.tolist()}, inside the whole "
                                    f"array they get {full_pred[idx].tolist()}")
                tr = est.predict(X)
                if not np.array_equal(tr, est.labels_):
                    raise Violation(f"{label}: predict on the training data differs from labels_")
                P = None
            else:
                P = est.predict_proba(Q)
                # other read-only questions put to the model in between play no part
                for name in ("find_active_points", "get_selection"):
                    if hasattr(est, name):
                        try:
                            getattr(est, name)(Q) if name == "find_active_points" else getattr(est, name)()
                        except Exception:
                            pass
                if s["cls"] == "Douglas" and getattr(est, "feature_mask", None) is not None and s["random_state"] % 2:
                    # a hyper-parameter of the *next* fit changed in between (no refit): the fitted model still answers
                    est.set_params(feature_mask=np.roll(np.asarray(est.feature_mask), 1))
                Ps = est.predict_proba(Q[idx]) if len(idx) else np.zeros((0, P.shape[1]))
                if Ps.shape != (len(idx), P.shape[1]):
                    raise Violation(f"{label}: predict_proba of {len(idx)} rows has shape {Ps.shape}")
                if len(idx) and np.max(np.abs(Ps - P[idx])) > 1e-10:
                    raise Violation(f"{label}: predict_proba of rows {idx.tolist()} alone differs from the same rows predicted "
                                    f"within the whole array by {np.max(np.abs(Ps - P[idx]))!r}")
                srt = np.sort(P, axis=1)
                margin = srt[:, -1] - srt[:, -2] if P.shape[1] > 1 else np.ones(len(P))
                clear = margin[idx] > 1e-8
                if len(idx) and not np.array_equal(sub_pred[clear], full_pred[idx][clear]):
                    raise Violation(f"{label}: labels of rows {idx.tolist()} predicted alone {sub_pred.tolist()} differ from "
                                    f"{full_pred[idx].tolist()}")
                # the same samples handed over as nested Python lists are the same samples
                Pl = est.predict_proba(Q.tolist())
                if np.shape(Pl) != P.shape or np.max(np.abs(np.asarray(Pl) - P)) > 1e-12:
                    raise Violation(f"{label}: predict_proba of a list of lists differs from predict_proba of the equal array")
                Ptr = est.predict_proba(X)
                if not np.array_equal(Ptr.argmax(1), est.labels_):
                    raise Violation(f"{label}: predicting the training data does not reproduce labels_")
                if s["cls"] == "KernelRIM":
                    Kq = E.kernelrim_kernel(s, Q, X)
                    H = Kq @ est.W_ + est.b_
                    H = H - H.max(1, keepdims=True)
                    ref = np.exp(H) / np.exp(H).sum(1, keepdims=True)
                    if np.max(np.abs(ref - P)) > 1e-9:
                        raise Violation(f"{label}: KernelRIM predictions are not softmax(k(new points, training points) W + b): "
                                        f"max deviation {np.max(np.abs(ref - P))!r}")
    nclu = len(np.unique(full_pred))
    proper = 0 < len(set(idx.tolist())) < m
    return {"nontrivial": bool(proper and nclu >= 2), "classes": [s["cls"], "idx:" + mode]}


@st.composite
def large_case(draw):
    cls = draw(st.sampled_from(INDUCTIVE + ["Douglas", "Douglas"]))
    s = draw(E.est_spec(classes=[cls], n_max=12, d_max=5, iter_max=1, k_max=4, hidden_max=4, n_min=4, cuts_max=3,
                        kernel_forms=("named",), metric_forms=("named",), metric_names=["euclidean", "manhattan", "cosine"],
                        xkinds=("normal",)))
    if cls == "Douglas":
        s["d"] = s["x"]["d"] = draw(st.sampled_from([5, 4, 3]))
        s["n_cuts"] = draw(st.sampled_from([3, 2, 3]))
        s["feature_mask"] = None
    return {"spec": s, "m": draw(st.integers(1030, 4300)), "qseed": draw(gens.seeds)}


def oracle_large(case):
    """the same per-sample relation on query arrays of thousands of rows (blocked prediction paths)"""
    s = case["spec"]
    label = E.label(s) + f", query of {case['m']} rows"
    X = E.build_data(s)
    est, y = E.build(s, X)
    with warnings.catch_warnings():
        warnings.simplefilter("ignore")
        with np.errstate(all="ignore"):
            try:
                est.fit(X, y)
            except Exception as e:
                return {"nontrivial": False, "classes": [s["cls"] + ":fit_raised"], "note": f"{type(e).__name__}: {e}"}
            rs = np.random.RandomState(case["qseed"])
            m, d = case["m"], X.shape[1]
            Q = X[rs.randint(len(X), size=m)] + rs.randn(m, d) * 0.3
            if E._data_nonneg(s):
                Q = np.abs(Q)
            P = est.predict_proba(Q)
            if hasattr(est, "find_active_points"):
                est.find_active_points(Q[:50])
            if P.shape != (m, s["n_clusters"]) or not np.all(np.isfinite(P)) or np.max(np.abs(P.sum(1) - 1)) > 1e-9:
                bad = np.where(~(np.abs(P.sum(1) - 1) <= 1e-9))[0][:5] if P.shape[0] == m else []
                raise Violation(f"{label}: predict_proba rows are not probability vectors (first offending rows {list(bad)})")
            idx = np.unique(np.concatenate([rs.choice(m, size=40, replace=False), np.arange(m - 25, m), np.arange(0, 5)]))
            Ps = est.predict_proba(Q[idx])
            if np.max(np.abs(Ps - P[idx])) > 1e-10:
                r = idx[int(np.argmax(np.max(np.abs(Ps - P[idx]), axis=1)))]
                raise Violation(f"{label}: row {r} is predicted differently alone / in a small array than inside the large array "
                                f"(difference {np.max(np.abs(Ps - P[idx]))!r})")
            pred = est.predict(Q)
            if not np.array_equal(pred, P.argmax(1)):
                raise Violation(f"{label}: predict is not the arg-max of predict_proba on the large array")
    return {"nontrivial": bool(len(np.unique(pred)) >= 2), "classes": [s["cls"] + ":large"]}


@st.composite
def forward_case(draw):
    s = draw(E.est_spec(classes=INDUCTIVE, n_max=12, d_max=4, iter_max=3, k_max=4, hidden_max=4, n_min=3,
                        kernel_forms=("named", "callable"), metric_forms=("named", "callable"), xkinds=("normal", "grid")))
    return {"spec": s}


def oracle_forward(case):
    """'reproduces what fit stored / those obtained during fit': the predictions the training loop works on at a step are
    the predictions predict_proba gives for the same samples with the weights of that step"""
    from .c10 import unique_data
    s = case["spec"]
    label = E.label(s)
    X = unique_data(s)
    est, y = E.build(s, X)
    rec = BatchRecorder(est, keep=False)
    inner = est._compute_grads
    seen = {"steps": 0, "compared": 0, "partial": 0}

    def watch(Xb, y_pred, gradient):
        seen["steps"] += 1
        full = np.asarray(rec.epochs[-1]["full"])
        idx = rows_to_indices(full, np.asarray(rec.last[0]))
        if isinstance(idx, list) and len(idx) == len(y_pred):
            kept = np.array(y_pred, copy=True)
            try:
                P = est.predict_proba(X)
            except Exception as e:
                P = None
                seen["predict_raised"] = f"{type(e).__name__}: {e}"
            if P is not None:
                seen["compared"] += 1
                seen["partial"] += int(len(idx) < len(X))
                if P.shape[0] != len(X) or np.max(np.abs(P[idx] - kept)) > 1e-10:
                    raise Violation(f"{label}: step {seen['steps']}: the predictions the training loop computed for samples {idx} differ "
                                    f"from predict_proba of the same samples with the same weights by "
                                    f"{np.max(np.abs(P[idx] - kept))!r}")
        return inner(Xb, y_pred, gradient)

    est._compute_grads = watch
    with warnings.catch_warnings():
        warnings.simplefilter("ignore")
        with np.errstate(all="ignore"):
            try:
                est.fit(X, y)
            except Violation:
                raise
            except Exception as e:
                return {"nontrivial": False, "classes": [s["cls"] + ":fit_raised"], "note": f"{type(e).__name__}: {e}"}
            P = est.predict_proba(X)
            if not np.array_equal(P.argmax(1), est.labels_) and np.all(np.sort(P, 1)[:, -1] - np.sort(P, 1)[:, -2 if P.shape[1] > 1 else -1] > 1e-8):
                raise Violation(f"{label}: predicting the training data does not reproduce labels_")
    return {"nontrivial": bool(seen["compared"] >= 1), "classes": [s["cls"], "batches:" + ("partial" if seen["partial"] else "full")],
            "counts": {k: v for k, v in seen.items() if isinstance(v, int)}, **({"note": seen["predict_raised"]} if "predict_raised" in seen else {})}


def subs():
    return [Sub("large_queries", large_case(), oracle_large, 120, 2500, "query arrays of 1030-4300 rows"),
            Sub("gradient_models", case_strategy(False), oracle, 1500, 30000, "inductive gradient-trained estimators"),
            Sub("training_forward", forward_case(), oracle_forward, 400, 10000, "training-time predictions == predict_proba with the same weights"),
            Sub("kauri", case_strategy(True), oracle, 600, 12000, "Kauri routing")]

"""C02 - GEMINI gradients are the exact derivative of the returned score."""
import numpy as np
from hypothesis import strategies as st

from .. import gens, objs
from ..deriv import compare
from ..harness import Sub, Violation
from ..refs import gemini_ref as R

QUICK_SCALE = 2  # quick budgets below are multiplied by this (kept at about half a minute on 8 processes)
THOROUGH_SCALE = 3  # thorough budgets below are multiplied by this (about ten minutes on 16 processes)

RULE = ("derivatives taken in logit space: P=softmax(L), L = scale*Z with scale in {0.1,1,4,10,20,40} (soft to saturated, "
        "clipping active at the largest scales); analytic <P*(g-<P,g>_row),U> vs Richardson central difference of "
        "t->score(softmax(L+tU)); directions where the one-sided slopes do not converge (kinks) are skipped and counted. "
        "Non-trivial: at least one accepted direction with |derivative| > 1e-6*S.")
ASSUMPTIONS = ["accepted error 10*|D_h-D_{h/2}| + 1e-7*max(S,|score|,|derivative|), h=1e-4",
               "non-differentiable directions (TV sign changes, transport basis changes, MMD zero distances, clip "
               "boundaries) are detected by non-converging one-sided slopes and excluded; their number is reported"]

SCALES = [0.1, 1.0, 4.0, 10.0, 20.0, 40.0]
# epsilon is a documented constructor parameter in (0,1): large values put rows partly inside the clipped region
EPSILONS = [1e-12, 1e-12, 1e-6, 1e-3, 0.05, 0.2]


@st.composite
def rand_case(draw):
    gs = draw(objs.gemini_spec(foreign=True))
    big = draw(st.integers(0, 5)) == 0
    nmax = (30 if big else 14) if gs["base"] == "wasserstein" else (160 if big else 30)
    return {"g": gs, "p": draw(gens.p_spec(n_max=nmax, k_max=16 if big else 6, scales=SCALES)), "x": draw(gens.x_spec(kinds=gens.LOWLEVEL_KINDS)),
            "dseed": draw(gens.seeds), "mode": "random", "eps": draw(st.sampled_from(EPSILONS))}


@st.composite
def coord_case(draw):
    gs = draw(objs.gemini_spec(foreign=True))
    return {"g": gs, "p": draw(gens.p_spec(n_max=4, k_max=3, scales=SCALES[:5])), "x": draw(gens.x_spec(kinds=gens.LOWLEVEL_KINDS)),
            "dseed": 0, "mode": "coords", "eps": draw(st.sampled_from(EPSILONS))}


def oracle_deriv(case):
    gs = case["g"]
    L = gens.build_logits(case["p"])
    n, K = L.shape
    X = gens.build_X(case["x"], n, nonneg=objs.gs_needs_nonneg(gs))
    g, A, label = objs.make_gemini(gs, X)
    g.epsilon = case.get("eps", 1e-12)
    label += f", epsilon={g.epsilon}"
    P = gens.softmax(L)
    val, grad = g(P, A, return_grad=True)
    val = float(np.asarray(val))
    grad = np.asarray(grad)
    if grad.shape != P.shape:
        raise Violation(f"{label}: gradient shape {grad.shape} != predictions shape {P.shape}")
    if not np.isfinite(val) or not np.all(np.isfinite(grad)):
        raise Violation(f"{label}: non-finite score/gradient at an interior point (score {val!r})")
    v_plain = float(np.asarray(g(P, A)))
    if v_plain != val:
        raise Violation(f"{label}: score {v_plain!r} without return_grad != {val!r} with return_grad")
    S = R.natural_scale(gs["base"], A)
    if A is not None and float(np.max(np.abs(A))) < 1e-12 and gs["a"]["name"] == "cosine" and gs["a"]["form"] in ("named", "callable", "precomputed"):
        # the affinity itself is rounding noise (cosine distances of collinear points, ~1e-17): so are score and gradient
        return {"nontrivial": False, "classes": ["noise_level_affinity"], "counts": {"directions_accepted": 0, "kink_skipped": 0}}
    if gs["base"] == "mmd":
        # numeric differentiation of the float64 MMD score is meaningless near one-hot predictions (plateaus caused by
        # the cancellation a+c-2b): differentiate the same function evaluated difference-first in extended precision
        def score_at(Lt):
            return R.mmd_longdouble(R.softmax_longdouble(Lt), A, gs["ovo"], g.epsilon)
        f0 = score_at(L)
        cond = R.mmd_condition(P, A, gs["ovo"], g.epsilon)
        if cond > 1e-3:
            # a squared distance is within 1000 roundings of zero: the float64 gradient (which divides by its square
            # root) is rounding noise there and nothing can be demanded of it; counted, not compared
            return {"nontrivial": False, "classes": [objs.gs_class(gs) + ":illconditioned"],
                    "counts": {"illconditioned_skipped": 1}}
        if abs(f0 - val) > R.score_tol("mmd", A, f0):
            raise Violation(f"{label}: score {val!r} != defining distance {f0!r}")
    else:
        def score_at(Lt):
            return float(np.asarray(g(gens.softmax(Lt), A)))
        f0 = val
        cond = 0.0
    lg = P * (grad - (P * grad).sum(1, keepdims=True))
    if case["mode"] == "coords":
        dirs = []
        for i in range(n):
            for k in range(K):
                U = np.zeros((n, K))
                U[i, k] = 1.0
                dirs.append(U)
    else:
        rs = np.random.RandomState(case["dseed"])
        dirs = []
        for _ in range(4):
            U = rs.randn(n, K)
            dirs.append(U / np.abs(U).max())
    ok = kink = 0
    strong = False
    for U in dirs:
        an = float((lg * U).sum())
        status, info = compare(lambda t: score_at(L + t * U), f0, an, S, retry_h=1e-6 if gs["base"] in ("tv", "wasserstein") else (1e-6, 1e-8) if gs["base"] == "mmd" else None)
        if status == "bad" and abs(info["analytic"] - info["numeric"]) <= info["tol"] + 4 * cond * float(np.abs(lg * U).sum()):
            status = "ok"  # within the rounding noise of the library's own cancellation (MMD only)
        if status == "kink":
            kink += 1
            continue
        if status == "nonfinite":
            raise Violation(f"{label}: non-finite score near an interior point: {info}")
        if status == "bad":
            raise Violation(f"{label}: gradient disagrees with the derivative of the score along a simplex direction: "
                            f"{info}; n={n} K={K} logits scale {case['p']['scale']}")
        ok += 1
        if abs(an) > 1e-6 * S:
            strong = True
    return {"nontrivial": strong, "classes": [objs.gs_class(gs) + f":scale={case['p']['scale']}", f"eps={g.epsilon}"],
            "counts": {"directions_accepted": ok, "kink_skipped": kink}}


# ------------------------------------------------------------------------------------------------------------------
@st.composite
def clip_case(draw):
    gs = draw(objs.gemini_spec(foreign=True))
    n = draw(st.integers(1, 8))
    K = draw(st.integers(2, 5))
    cells = st.sampled_from(["soft", "zero", "one", "below_eps", "above"])
    pattern = draw(st.lists(st.lists(cells, min_size=K, max_size=K), min_size=n, max_size=n))
    return {"g": gs, "n": n, "K": K, "pattern": pattern, "pseed": draw(gens.seeds), "x": draw(gens.x_spec(kinds=gens.LOWLEVEL_KINDS)),
            "eps": draw(st.sampled_from([1e-12, 1e-6, 1e-3]))}


def build_clip_P(case):
    rs = np.random.RandomState(case["pseed"])
    n, K, eps = case["n"], case["K"], case["eps"]
    P = np.zeros((n, K))
    for i in range(n):
        row = case["pattern"][i]
        if "one" in row:  # a one-hot row
            P[i, row.index("one")] = 1.0
            continue
        soft = [k for k in range(K) if row[k] in ("soft", "above")]
        small = [k for k in range(K) if row[k] == "below_eps"]
        for k in small:
            P[i, k] = eps * rs.uniform(0.0, 0.9)
        if not soft:
            soft = [rs.randint(K)]
        w = rs.dirichlet(np.ones(len(soft)))
        rest = 1.0 - P[i].sum()
        for k, wk in zip(soft, w):
            P[i, k] = rest * wk
    return P


def oracle_clip(case):
    gs = case["g"]
    P = build_clip_P(case)
    n, K = P.shape
    X = gens.build_X(case["x"], n, nonneg=objs.gs_needs_nonneg(gs))
    g, A, label = objs.make_gemini(gs, X)
    eps = case["eps"]
    g.epsilon = eps  # documented constructor parameter, stored as a plain attribute
    val, grad = g(P, A, return_grad=True)
    grad = np.asarray(grad)
    if grad.shape != P.shape:
        raise Violation(f"{label}: gradient shape {grad.shape} != predictions shape {P.shape}")
    v_plain = float(np.asarray(g(P, A)))
    if v_plain != float(np.asarray(val)) and not (np.isnan(v_plain) and np.isnan(float(np.asarray(val)))):
        raise Violation(f"{label}: score {v_plain!r} without return_grad != {float(np.asarray(val))!r} with return_grad")
    clipped = (P <= eps) | (P >= 1 - eps)
    bad = clipped & (grad != 0)
    if np.any(bad):
        i, k = np.argwhere(bad)[0]
        raise Violation(f"{label}: entry P[{i},{k}]={P[i, k]!r} is clipped at the epsilon bound {eps} but its gradient is "
                        f"{grad[i, k]!r}, not 0")
    return {"nontrivial": bool(clipped.any() and (~clipped).any()), "classes": [objs.gs_class(gs) + f":eps={eps}"],
            "counts": {"clipped_entries": int(clipped.sum())}}


@st.composite
def huge_case(draw):
    gs = draw(objs.gemini_spec(foreign=True, bases=("tv", "kl", "hellinger", "chi2")))
    kind = draw(st.sampled_from(["rows", "rows_x_clusters"]))
    if kind == "rows":
        p = draw(gens.p_spec(n_min=1025, n_max=2400, k_min=2, k_max=4, scales=[0.5, 2.0, 8.0]))
    else:
        p = draw(gens.p_spec(n_min=660, n_max=1500, k_min=26, k_max=40, scales=[0.5, 2.0, 8.0]))
    return {"g": gs, "p": p, "x": draw(gens.x_spec(d_max=2, kinds=("normal",))), "dseed": draw(gens.seeds), "mode": "random",
            "eps": draw(st.sampled_from([1e-12, 1e-3]))}


@st.composite
def wass_large_case(draw):
    gs = draw(objs.gemini_spec(foreign=True, bases=("wasserstein",), metric_forms=("named", "randdist", "foreign")))
    return {"g": gs, "p": draw(gens.p_spec(n_min=40, n_max=150, k_min=2, k_max=6, scales=[0.5, 2.0, 8.0])),
            "x": draw(gens.x_spec(d_max=3, kinds=("normal", "grid"))), "dseed": draw(gens.seeds), "mode": "random",
            "eps": draw(st.sampled_from([1e-12, 1e-3]))}


@st.composite
def small_units_case(draw):
    """data in very small or very large units with kernels / metrics that are homogeneous in the data: scores and gradients
    simply scale, nothing may be rounded to zero or lost against absolute thresholds"""
    base = draw(st.sampled_from(["mmd", "wasserstein"]))
    if base == "mmd":
        a = draw(gens.kernel_spec(forms=("named", "precomputed", "callable"), names=["linear", "additive_chi2", "polynomial"]))
        if a["name"] == "polynomial":
            a["params"] = {"coef0": 0.0, "degree": draw(st.sampled_from([1, 2]))}
    else:
        a = draw(gens.metric_spec(forms=("named", "precomputed"), names=["euclidean", "manhattan", "l2", "cityblock"]))
    gs = {"base": base, "ovo": draw(st.booleans()), "a": a}
    return {"g": gs, "p": draw(gens.p_spec(n_min=2, n_max=12, k_max=4, scales=[0.1, 1.0, 4.0])),
            "x": draw(gens.x_spec(kinds=("tiny", "tiny", "big"))), "dseed": draw(gens.seeds), "mode": "random",
            "eps": draw(st.sampled_from([1e-12, 1e-6]))}


def subs():
    return [
        Sub("small_units", small_units_case(), oracle_deriv, 300, 6000, "homogeneous kernels / metrics on data scaled by 1e-12..1e-6 or 1e4..1e6"),
        Sub("wasserstein_large", wass_large_case(), oracle_deriv, 60, 1500, "Wasserstein on 40-150 samples, up to 6 clusters"),
        Sub("huge_shapes", huge_case(), oracle_deriv, 24, 300, "n beyond 1024 rows / n*K^2 beyond 2^20 (blocked code paths)"),
        Sub("logit_random", rand_case(), oracle_deriv, 6000, 120000, "4 random simplex directions per case"),
        Sub("logit_coords", coord_case(), oracle_deriv, 1500, 30000, "all coordinate directions, n<=4, K<=3"),
        Sub("shape_and_clip", clip_case(), oracle_clip, 4000, 60000, "exact 0/1 entries and entries below epsilon"),
    ]


def health(reports):
    out = []
    for name in ("logit_random", "logit_coords"):
        c = reports[name]["counts"]
        tot = c.get("directions_accepted", 0) + c.get("kink_skipped", 0)
        if tot and c.get("kink_skipped", 0) > 0.5 * tot:
            out.append(f"{name}: more than half of the directions were skipped as kinks ({c})")
    return out

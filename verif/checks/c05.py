"""C05 - proximal operators return the exact minimiser of their penalised problem."""
import numpy as np
from hypothesis import strategies as st

from .. import gens
from ..harness import Sub, Violation, import_repo
from ..refs import prox_ref

import_repo()
from gemclus.sparse import _prox_grad as P  # noqa: E402

QUICK_SCALE = 2  # quick budgets below are multiplied by this (kept at about half a minute on 8 processes)
THOROUGH_SCALE = 1.5  # thorough budgets below are multiplied by this (about ten minutes on 16 processes)

RULE = ("matrices d,h in [1,6] with entries drawn from {small integers (ties), exact zeros, floats in [-10,10], "
        "floats of magnitude 1e-100..1e-6 (squares do not underflow)}; alpha in {0, small, about a row norm, exactly a row norm, large}; M in {0,0.1,1,10,100}; "
        "random partitions into groups. Non-trivial: at least one row/group zeroed and one kept, or a hidden "
        "weight clipped by the hierarchy constraint.")
ASSUMPTIONS = ["reference minimiser obtained by the 1-D reduction on ||beta|| (convex piecewise quadratic), "
               "compared to 1e-9 relative to the data scale; competitors are generated feasible points"]

entry = st.one_of(st.integers(-3, 3).map(float), st.just(0.0), st.floats(-10, 10, allow_nan=False, width=64),
                  st.floats(1e-100, 1e-6, width=64), st.floats(-1e-6, -1e-100, width=64), st.sampled_from([1.0, -1.0, 2.0, 0.5])).map(lambda x: 0.0 if abs(x) < 1e-100 else x)


def matrix(d, h):
    return st.lists(st.lists(entry, min_size=h, max_size=h), min_size=d, max_size=d)


@st.composite
def partition(draw, d):
    labels = draw(st.lists(st.integers(0, max(0, d - 1)), min_size=d, max_size=d))
    groups = {}
    for i, l in enumerate(labels):
        groups.setdefault(l, []).append(i)
    if d >= 2 and draw(st.integers(0, 4)) == 0:
        # interleaved columns (what strided ranges describe): group j = j, j+k, j+2k, ...
        k = draw(st.integers(2, min(3, d)))
        gl = [list(range(j, d, k))[::draw(st.sampled_from([1, 1, -1]))] for j in range(k)]
    else:
        gl = [list(draw(st.permutations(g))) for g in groups.values()]  # indices inside a group come in any order
    if draw(st.integers(0, 7)) == 0:
        gl.append([])  # a group without any feature
    perm = draw(st.permutations(range(len(gl))))
    return [gl[i] for i in perm]


alpha_kind = st.sampled_from(["zero", "small", "near", "exact", "large", "free"])


def pick_alpha(kind, free, W, row):
    norms = np.linalg.norm(np.asarray(W, dtype=float), axis=1)
    ref = float(norms[row % len(norms)])
    return {"zero": 0.0, "small": 1e-3, "near": ref * (1 + free * 1e-3), "exact": ref, "large": 1e3,
            "free": abs(free) * 5}[kind]


@st.composite
def lin_case(draw, grouped):
    d = draw(st.integers(1, 7))
    h = draw(st.integers(1, 6))
    W = draw(matrix(d, h))
    case = {"W": W, "alpha_kind": draw(alpha_kind), "alpha_free": draw(st.floats(-1, 1, width=64)),
            "alpha_row": draw(st.integers(0, 5)), "comp_seed": draw(st.integers(0, 2 ** 31 - 1))}
    if grouped:
        case["groups"] = draw(partition(d))
        case["gcont"] = draw(st.one_of(st.none(), gens.seeds))
    return case


def _alpha_for(case, W, groups):
    if groups is None:
        return pick_alpha(case["alpha_kind"], case["alpha_free"], W, case["alpha_row"])
    flat = [np.asarray(W)[g].reshape(1, -1)[0] for g in groups]
    g = flat[case["alpha_row"] % len(flat)]
    ref = float(np.linalg.norm(g))
    return {"zero": 0.0, "small": 1e-3, "near": ref * (1 + case["alpha_free"] * 1e-3), "exact": ref, "large": 1e3,
            "free": abs(case["alpha_free"]) * 5}[case["alpha_kind"]]


def close(a, b, scale, tol=1e-9):
    return np.all(np.abs(np.asarray(a) - np.asarray(b)) <= tol * max(1.0, scale))


def oracle_linear(case):
    W = np.array(case["W"], dtype=float)
    groups = case.get("groups")
    alpha = _alpha_for(case, W, groups)
    Wc = W.copy()
    with np.errstate(all="ignore"):
        out = P.linear_prox_grad(Wc, alpha) if groups is None else \
            P.group_linear_prox_grad(gens.group_containers(groups, case.get("gcont")), Wc, alpha)
    if not np.array_equal(Wc, W):
        raise Violation("the proximal operator modified its input")
    if out.shape != W.shape:
        raise Violation(f"shape {out.shape} != {W.shape}")
    gl = [[i] for i in range(len(W))] if groups is None else groups
    scale = float(np.max(np.abs(W))) if W.size else 1.0
    zeroed = kept = 0
    rs = np.random.RandomState(case["comp_seed"])
    for g in gl:
        if len(g) == 0:
            continue  # a group without features has nothing to shrink
        w = W[g]
        z = out[g]
        ref = prox_ref.group_lasso_prox(w, alpha)
        nrm = np.linalg.norm(w.reshape(-1))
        if nrm <= alpha:
            zeroed += 1
            # exactness is demanded two ulps away from the boundary (the norm of a flattened group may be
            # summed in another order than the reference's and differ in the last bit)
            if nrm <= alpha * (1 - 1e-13) and np.any(z != 0.0):
                raise Violation(f"group {g}: norm {nrm!r} <= alpha {alpha!r} but result {z.tolist()} is not exactly zero")
        else:
            kept += 1
        if not np.all(np.isfinite(z)):
            raise Violation(f"group {g}: non-finite result {z.tolist()}")
        if not close(z, ref, scale):
            raise Violation(f"group {g}: result {z.tolist()} != reference minimiser {ref.tolist()} (alpha={alpha!r})")
        obj = prox_ref.group_lasso_objective(z, w, alpha)
        for _ in range(8):
            comp = z + rs.randn(*z.shape) * 10.0 ** rs.randint(-6, 1)
            if prox_ref.group_lasso_objective(comp, w, alpha) < obj - 1e-9 * max(1.0, abs(obj)):
                raise Violation(f"group {g}: competitor {comp.tolist()} has a lower objective than the result {z.tolist()}")
    nontrivial = zeroed >= 1 and kept >= 1
    cls = ("grouped" if groups is not None else "rows") + ":" + case["alpha_kind"]
    return {"nontrivial": nontrivial, "classes": [cls], "counts": {"zeroed_groups": zeroed, "kept_groups": kept}}


M_values = st.sampled_from([0.0, 0.1, 1.0, 10.0, 100.0, 0.5, 3.0])


@st.composite
def mlp_case(draw, grouped):
    d = draw(st.integers(1, 7))
    K = draw(st.integers(1, 4))
    h = draw(st.integers(1, 6))
    V = draw(matrix(d, K))
    U = draw(matrix(d, h))
    case = {"V": V, "U": U, "M": draw(M_values), "alpha_kind": draw(alpha_kind),
            "alpha_free": draw(st.floats(-1, 1, width=64)), "alpha_row": draw(st.integers(0, 5)),
            "comp_seed": draw(st.integers(0, 2 ** 31 - 1))}
    if grouped:
        case["groups"] = draw(partition(d))
        case["gcont"] = draw(st.one_of(st.none(), gens.seeds))
    return case


def oracle_mlp(case):
    V = np.array(case["V"], dtype=float)
    U = np.array(case["U"], dtype=float)
    groups = case.get("groups")
    M = case["M"]
    alpha = _alpha_for({**case}, V, groups)
    gl = [[i] for i in range(len(V))] if groups is None else groups
    # stated scope: a group with zero skip weights is in scope only if its hidden weights are zero too and alpha>0
    for g in gl:
        if len(g) == 0:
            continue  # a group without features has nothing to shrink
        if not np.any(V[g] != 0.0):
            U[g] = 0.0
            if alpha == 0.0:
                alpha = 1e-3
    Vc, Uc = V.copy(), U.copy()
    with np.errstate(all="ignore"):
        try:
            if groups is None:
                B, T = P.mlp_prox_grad(Vc, Uc, alpha, M)
            else:
                B, T = P.group_mlp_prox_grad(gens.group_containers(groups, case.get("gcont")), Vc, Uc, alpha, M)
        except (IndexError, ValueError, FloatingPointError) as e:
            raise Violation(f"hierarchical prox raised {type(e).__name__}: {e}")
    if not (np.array_equal(Vc, V) and np.array_equal(Uc, U)):
        raise Violation("the proximal operator modified its inputs")
    if B.shape != V.shape or T.shape != U.shape:
        raise Violation(f"shapes {B.shape},{T.shape} != {V.shape},{U.shape}")
    scale = max(float(np.max(np.abs(V))), float(np.max(np.abs(U))), 1.0)
    rs = np.random.RandomState(case["comp_seed"])
    clipped = zeroed = kept = 0
    for g in gl:
        if len(g) == 0:
            continue  # a group without features has nothing to shrink
        v, u, b, t = V[g], U[g], B[g], T[g]
        if not (np.all(np.isfinite(b)) and np.all(np.isfinite(t))):
            raise Violation(f"group {g}: non-finite result beta={b.tolist()} theta={t.tolist()}")
        if not prox_ref.hier_feasible(b, t, M, slack=1e-9):
            raise Violation(f"group {g}: infeasible result, max|theta|={np.max(np.abs(t))!r} > M*||beta||="
                            f"{M * np.linalg.norm(b.reshape(-1))!r}")
        rb, rt, r, gmin = prox_ref.hier_prox(v, u, alpha, M)
        obj = prox_ref.hier_objective(b, t, v, u, alpha)
        robj = prox_ref.hier_objective(rb, rt, v, u, alpha)
        tol = 1e-9 * max(1.0, abs(robj), scale ** 2)
        if obj > robj + tol:
            raise Violation(f"group {g}: objective {obj!r} of the result exceeds that of a feasible point "
                            f"{robj!r} (alpha={alpha!r}, M={M!r}); result beta={b.tolist()} theta={t.tolist()}, "
                            f"better beta={rb.tolist()} theta={rt.tolist()}")
        if not (close(b, rb, scale, 1e-7) and close(t, rt, scale, 1e-7)):
            # the minimiser is unique whenever v != 0 (strictly convex objective on a convex set)
            raise Violation(f"group {g}: result beta={b.tolist()} theta={t.tolist()} differs from the unique "
                            f"minimiser beta={rb.tolist()} theta={rt.tolist()}")
        for _ in range(6):
            cb = b + rs.randn(*b.shape) * 10.0 ** rs.randint(-6, 1)
            ct = t + rs.randn(*t.shape) * 10.0 ** rs.randint(-6, 1)
            bound = M * np.linalg.norm(cb.reshape(-1))
            ct = np.clip(ct, -bound, bound)
            if prox_ref.hier_objective(cb, ct, v, u, alpha) < obj - tol:
                raise Violation(f"group {g}: feasible competitor beats the result")
        if np.any(np.abs(t) < np.abs(u) - 1e-12):
            clipped += 1
        if np.any(b != 0):
            kept += 1
        else:
            zeroed += 1
    nontrivial = clipped >= 1 or (zeroed >= 1 and kept >= 1)
    cls = ("grouped" if groups is not None else "rows") + f":M={M}"
    return {"nontrivial": nontrivial, "classes": [cls],
            "counts": {"clipped_groups": clipped, "zeroed_groups": zeroed, "kept_groups": kept}}


@st.composite
def large_prox_case(draw):
    return {"d": draw(st.integers(1025, 2600)), "h": draw(st.integers(1, 40)), "K": draw(st.integers(1, 6)),
            "seed": draw(st.integers(0, 2 ** 31 - 1)), "alpha": draw(st.sampled_from([0.0, 0.3, 1.0, 3.0])),
            "M": draw(st.sampled_from([0.0, 0.1, 1.0, 10.0])), "grouped": draw(st.booleans()), "which": draw(st.sampled_from(["linear", "hier"]))}


def oracle_large_prox(case):
    """the same operators on thousands of features (blocked / vectorised code paths): row-wise comparison with the reference"""
    rs = np.random.RandomState(case["seed"])
    d, h, K = case["d"], case["h"], case["K"]
    alpha, M = case["alpha"], case["M"]
    groups = None
    if case["grouped"]:
        perm = rs.permutation(d)
        cuts = np.sort(rs.choice(np.arange(1, d), size=min(d - 1, rs.randint(1, 400)), replace=False))
        groups = [list(map(int, g)) for g in np.split(perm, cuts)]
    gl = [[i] for i in range(d)] if groups is None else groups
    if case["which"] == "linear":
        W = rs.randn(d, h) * rs.choice([0.1, 1.0, 3.0], size=(d, 1))
        W[rs.rand(d) < 0.05] = 0.0
        with np.errstate(all="ignore"):
            out = P.linear_prox_grad(W.copy(), alpha) if groups is None else P.group_linear_prox_grad(groups, W.copy(), alpha)
        for g in gl:
            ref = prox_ref.group_lasso_prox(W[g], alpha)
            if out[g].shape != ref.shape or not np.allclose(out[g], ref, rtol=0, atol=1e-9 * 10):
                raise Violation(f"group-lasso prox on a {d}x{h} matrix (groups: {groups is not None}): feature(s) {g[:6]} give "
                                f"{out[g].ravel()[:4].tolist()}, reference {ref.ravel()[:4].tolist()} (alpha={alpha})")
        kept = int(np.sum(np.any(out != 0, axis=1)))
        return {"nontrivial": 0 < kept < d, "classes": ["linear:" + ("groups" if groups else "rows")]}
    V = rs.randn(d, K) * rs.choice([0.1, 1.0, 3.0], size=(d, 1))
    U = rs.randn(d, h)
    if alpha == 0:
        alpha = 0.3
    with np.errstate(all="ignore"):
        B, T = P.mlp_prox_grad(V.copy(), U.copy(), alpha, M) if groups is None else P.group_mlp_prox_grad(groups, V.copy(), U.copy(), alpha, M)
    idx = rs.choice(len(gl), size=min(len(gl), 120), replace=False).tolist() + [len(gl) - 1, 0]
    for gi in idx:
        g = gl[gi]
        rb, rt, _, _ = prox_ref.hier_prox(V[g], U[g], alpha, M)
        if not (np.allclose(B[g], rb, rtol=0, atol=1e-6) and np.allclose(T[g], rt, rtol=0, atol=1e-6)):
            raise Violation(f"hierarchical prox on {d} features (groups: {groups is not None}): feature(s) {g[:6]} differ from the "
                            f"reference minimiser (alpha={alpha}, M={M})")
    if not (np.all(np.isfinite(B)) and np.all(np.isfinite(T))):
        raise Violation(f"hierarchical prox on {d} features returned non-finite values")
    return {"nontrivial": True, "classes": ["hier:" + ("groups" if groups else "rows")]}


def _in_training_case():
    from .c06 import fit_case
    return fit_case()


def _in_training_oracle(case):
    """the proximal steps reached through the estimators: every shrinkage observed in a real fit must be the minimiser too"""
    from .c06 import oracle_fit
    out = oracle_fit(case)
    out["nontrivial"] = bool(out.get("counts", {}).get("prox_steps", 0) >= 1)
    return out


def _in_path_case():
    from .c06 import path_case
    return path_case()


def _in_path_oracle(case):
    from .c06 import oracle_path
    out = oracle_path(case)
    out["nontrivial"] = bool(out.get("counts", {}).get("prox_steps", 0) >= 1)
    return out


def subs():
    return [
        Sub("in_training_paths", _in_path_case(), _in_path_oracle, 60, 2000, "the operators as applied at every step of a path (dynamic mode included)"),
        Sub("in_training", _in_training_case(), _in_training_oracle, 120, 4000, "the operators as the sparse estimators apply them after each optimiser step (alpha = 0 and M = 0 included)"),
        Sub("large_matrices", large_prox_case(), oracle_large_prox, 40, 600, "1025-2600 features"),
        Sub("linear_rows", lin_case(False), oracle_linear, 3000, 150000, "row-wise group lasso"),
        Sub("linear_groups", lin_case(True), oracle_linear, 2000, 100000, "group lasso over feature groups"),
        Sub("hier_rows", mlp_case(False), oracle_mlp, 3000, 150000, "HIER-PROX per feature"),
        Sub("hier_groups", mlp_case(True), oracle_mlp, 2000, 100000, "HIER-PROX over feature groups"),
    ]

"""Shared machinery of the GemClus property checks.

A *check* (one per property) is a list of *sub-checks*.  A sub-check is
  (name, hypothesis strategy producing a JSON-able ``case``, oracle(case) -> info dict, budgets)
The oracle raises ``Violation`` when the property is broken on the case, ``KnownFinding`` when the
case runs into a defect listed in /verif/known_findings.txt, and returns
``{"nontrivial": bool, "classes": [str, ...], "counts": {str: int}}`` otherwise.

Everything random is drawn by Hypothesis; arrays are pure functions of drawn integers.
Exit codes of the runner: 0 = held on everything explored, 1 = VIOLATION, 2 = harness error.
"""
import hashlib
import json
import math
import os
import sys
import time
import traceback

VERIF_DIR = os.path.dirname(os.path.dirname(os.path.abspath(__file__)))
REPO = os.environ.get("GEMCLUS_REPO", "/repo")
# where evidence/ and replays/ are written; only the mutant driver overrides it (scratch directory)
OUT_DIR = os.environ.get("VERIF_OUT", VERIF_DIR)

for _v in ("OMP_NUM_THREADS", "OPENBLAS_NUM_THREADS", "MKL_NUM_THREADS", "NUMEXPR_NUM_THREADS"):
    os.environ.setdefault(_v, "1")


def import_repo():
    """Import gemclus from the working tree under test and make sure it is that one."""
    if sys.path[0] != REPO:
        sys.path.insert(0, REPO)
    import gemclus
    here = os.path.realpath(os.path.dirname(gemclus.__file__))
    want = os.path.realpath(os.path.join(REPO, "gemclus"))
    if here != want:
        raise HarnessError(f"gemclus imported from {here}, expected {want}")
    return gemclus


class Violation(Exception):
    """The property does not hold on the current case."""


class KnownFinding(Exception):
    """The case meets a defect that is listed (by id) in known_findings.txt."""

    def __init__(self, fid, msg):
        super().__init__(f"{fid}: {msg}")
        self.fid = fid
        self.msg = msg


class HarnessError(Exception):
    pass


class _Abort(BaseException):
    """Stops Hypothesis once the shrinking budget is spent (the best failure so far is kept)."""


class CaseTimeout(Exception):
    """One generated case did not return within the watchdog limit (cases normally take milliseconds to a few seconds)."""


WATCHDOG_S = {"quick": 600, "thorough": 1800}
_WATCH = {"tier": "quick", "as_violation": False}


def guarded(oracle, case):
    """Runs oracle(case) under a wall-clock watchdog (each shard is the main thread of its own process). A code change that
    makes a fit loop endless would otherwise hang the check for ever. For the properties that state termination (C04, C07:
    modules with TERMINATION_IS_PROPERTY) exceeding the limit is reported as a violation of that clause - the limit is two
    to three orders of magnitude above the slowest legitimate case; elsewhere it is a harness error (inconclusive, exit 2)."""
    import signal
    limit = WATCHDOG_S[_WATCH["tier"]]

    def on_alarm(signum, frame):
        raise CaseTimeout(f"the case did not return within {limit} s")

    try:
        old = signal.signal(signal.SIGALRM, on_alarm)
    except ValueError:  # not in the main thread
        return oracle(case)
    signal.alarm(limit)
    try:
        return oracle(case)
    except CaseTimeout as e:
        if _WATCH["as_violation"]:
            raise Violation(f"{e}: a call of fit / path / predict does not terminate (cases of this sub-check normally take "
                            f"at most a few seconds); case {json.dumps(jsonable(case))[:600]}")
        raise
    finally:
        signal.alarm(0)
        signal.signal(signal.SIGALRM, old)


# ----------------------------------------------------------------------------------------------
# known findings

def load_known_findings():
    """Returns {id: {"property":..., "text":...}} for the 'known:' lines of known_findings.txt."""
    path = os.path.join(VERIF_DIR, "known_findings.txt")
    out = {}
    if not os.path.exists(path):
        return out
    for line in open(path):
        line = line.strip()
        if not line.startswith("known:"):
            continue
        fields = dict(tok.split("=", 1) for tok in line.split()[1:3] if "=" in tok)
        rest = line.split(None, 3)[3] if len(line.split(None, 3)) > 3 else ""
        out[fields["id"]] = {"property": fields["property"], "text": rest}
    return out


KNOWN = load_known_findings()


def known(fid, msg):
    """Raise KnownFinding if fid is listed, otherwise a Violation (the file drives suppression)."""
    if fid in KNOWN:
        raise KnownFinding(fid, msg)
    raise Violation(f"{msg} [would match finding {fid}, which is not listed]")


# ----------------------------------------------------------------------------------------------
# JSON helpers

def jsonable(x):
    import numpy as np
    if isinstance(x, dict):
        return {str(k): jsonable(v) for k, v in x.items()}
    if isinstance(x, (list, tuple)):
        return [jsonable(v) for v in x]
    if isinstance(x, np.ndarray):
        return jsonable(x.tolist())
    if isinstance(x, (np.integer,)):
        return int(x)
    if isinstance(x, (np.floating,)):
        return jsonable(float(x))
    if isinstance(x, (np.bool_,)):
        return bool(x)
    if isinstance(x, float):
        if math.isnan(x) or math.isinf(x):
            return repr(x)
        return x
    if isinstance(x, (str, int, bool)) or x is None:
        return x
    return repr(x)


def canon(case):
    return json.dumps(case, sort_keys=True, default=repr)


def case_hash(case):
    return int.from_bytes(hashlib.sha1(canon(case).encode()).digest()[:8], "big")


def truncate(obj, limit=1500):
    s = json.dumps(jsonable(obj), sort_keys=True)
    if len(s) <= limit:
        return jsonable(obj)
    return {"truncated_json": s[:limit] + "..."}


# ----------------------------------------------------------------------------------------------
# sub-checks

class Sub:
    def __init__(self, name, strategy, oracle, quick, thorough, rule="", shards=True, plain=None, machine=None,
                 steps=12):
        """strategy may be a hypothesis strategy or a zero-argument callable returning one.
        plain: optional callable(tier, seed) -> iterable of cases for sub-checks that enumerate
        a finite space instead of sampling it (reported as exhaustive)."""
        self.name = name
        self._strategy = strategy
        self.oracle = oracle
        self.budget = {"quick": quick, "thorough": thorough}
        self.rule = rule
        self.shards = shards
        self.plain = plain
        # machine: callable(report_hook) -> RuleBasedStateMachine subclass (Hypothesis stateful mode); its instances
        # keep the executed steps in .steps (JSON-able) and call report_hook(case, info) from teardown()
        self.machine = machine
        self.steps = steps

    @property
    def strategy(self):
        s = self._strategy
        from hypothesis.strategies import SearchStrategy
        if not isinstance(s, SearchStrategy):
            s = s()
        return s


class SubReport(dict):
    pass


def new_report(sub_name):
    return {"sub": sub_name, "evaluations": 0, "nontrivial": set(), "classes": {}, "counts": {},
            "samples": {}, "known": {}, "failure": None, "error": None, "wall_s": 0.0, "exhaustive": False}


def _absorb(rep, case, info):
    rep["evaluations"] += 1
    info = info or {}
    classes = info.get("classes") or []
    for c in classes:
        rep["classes"][c] = rep["classes"].get(c, 0) + 1
    for k, v in (info.get("counts") or {}).items():
        rep["counts"][k] = rep["counts"].get(k, 0) + int(v)
    if info.get("nontrivial"):
        h = case_hash(case)
        if h not in rep["nontrivial"]:
            rep["nontrivial"].add(h)
            key = classes[0] if classes else "nontrivial"
            if key not in rep["samples"] and len(rep["samples"]) < 6:
                sample = {"case": truncate(case)}
                if info.get("note") is not None:
                    sample["observed"] = truncate(info["note"], 600)
                rep["samples"][key] = sample


def _scale(mod, subs):
    """QUICK_SCALE / THOROUGH_SCALE of a check module multiply the case budgets of its sampled sub-checks."""
    for s in subs:
        if s.plain is None:
            s.budget = {"quick": max(1, int(s.budget["quick"] * getattr(mod, "QUICK_SCALE", 1))),
                        "thorough": max(1, int(s.budget["thorough"] * getattr(mod, "THOROUGH_SCALE", 1)))}


def run_sub_shard(args):
    """Runs one sub-check shard in this process. args = (property module name, sub name, tier, seed, shard, nshards)"""
    modname, subname, tier, seed, shard, nshards = args
    t0 = time.time()
    rep = new_report(subname)
    import contextlib
    try:
        import importlib
        mod = importlib.import_module(modname)
        sub = {s.name: s for s in mod.subs()}[subname]
        _scale(mod, [sub])
        _WATCH["tier"], _WATCH["as_violation"] = tier, bool(getattr(mod, "TERMINATION_IS_PROPERTY", False))
        # the code under test may print (verbose=True is a hyper-parameter like any other): its stdout is discarded
        with open(os.devnull, "w") as devnull, contextlib.redirect_stdout(devnull):
            if sub.plain is not None:
                _run_plain(sub, rep, tier, seed, shard, nshards)
            elif sub.machine is not None:
                _run_machine(sub, rep, tier, seed, shard, nshards)
            else:
                _run_hypothesis(sub, rep, tier, seed, shard, nshards)
    except Exception:
        rep["error"] = traceback.format_exc()
    rep["wall_s"] = time.time() - t0
    rep["nontrivial"] = list(rep["nontrivial"])
    return rep


def _run_plain(sub, rep, tier, seed, shard, nshards):
    rep["exhaustive"] = True
    for i, case in enumerate(sub.plain(tier, seed)):
        if i % nshards != shard:
            continue
        try:
            info = guarded(sub.oracle, case)
        except KnownFinding as k:
            rep["known"][k.fid] = rep["known"].get(k.fid, 0) + 1
            rep["known_msg_" + k.fid] = k.msg
            rep["evaluations"] += 1
            continue
        except Violation as v:
            # enumerated sub-checks go on after a failure so that every root cause is listed (first one is the replay)
            if rep["failure"] is None:
                rep["failure"] = {"case": jsonable(case), "message": str(v), "also": []}
            elif len(rep["failure"]["also"]) < 25:
                rep["failure"]["also"].append(str(v)[:300])
            rep["evaluations"] += 1
            continue
        _absorb(rep, case, info)


def _is_flaky(e):
    """Hypothesis reports a failure that does not replay identically (e.g. code reading uninitialised memory) as Flaky*."""
    from hypothesis import errors
    kinds = tuple(getattr(errors, n) for n in ("Flaky", "FlakyFailure", "FlakyReplay") if hasattr(errors, n))
    if isinstance(e, kinds):
        return True
    return any(_is_flaky(x) for x in getattr(e, "exceptions", ()))


def _run_machine(sub, rep, tier, seed, shard, nshards):
    """Hypothesis stateful mode: rules are public API calls, the whole history shrinks as one value."""
    from hypothesis import settings, seed as hseed, HealthCheck, Phase
    from hypothesis.stateful import run_state_machine_as_test
    n = max(1, sub.budget[tier] // nshards)
    shrink_budget = 20.0 if tier == "quick" else 180.0
    state = {"first_fail_t": None, "last_fail": None}

    def hook(kind, case, info):
        if kind == "start":
            if state["first_fail_t"] is not None and time.time() - state["first_fail_t"] > shrink_budget:
                raise _Abort()
        elif kind == "known":
            rep["known"][info.fid] = rep["known"].get(info.fid, 0) + 1
            rep["known_msg_" + info.fid] = info.msg
        elif kind == "violation":
            if state["first_fail_t"] is None:
                state["first_fail_t"] = time.time()
            state["last_fail"] = {"case": jsonable(case), "message": str(info)}
        elif kind == "done" and state["first_fail_t"] is None:
            _absorb(rep, case, info)

    cls = sub.machine(hook)
    st_ = settings(max_examples=n, stateful_step_count=sub.steps, database=None, deadline=None, report_multiple_bugs=False,
                   suppress_health_check=list(HealthCheck), derandomize=False,
                   phases=[Phase.explicit, Phase.generate, Phase.shrink])
    try:
        run_state_machine_as_test(hseed(seed * 1000 + shard)(cls), settings=st_)
    except _Abort:
        rep["failure"] = state["last_fail"]
        rep["failure"]["shrink"] = "budget exhausted"
    except Violation:
        rep["failure"] = state["last_fail"]
    except BaseException as e:
        if not _is_flaky(e) or state["last_fail"] is None:
            raise
        rep["failure"] = dict(state["last_fail"], flaky="the violation was observed but does not reproduce on every "
                                                          "replay: the code under test is not deterministic")


def _run_hypothesis(sub, rep, tier, seed, shard, nshards):
    from hypothesis import given, settings, seed as hseed, HealthCheck, Phase
    n = max(1, sub.budget[tier] // nshards)
    shrink_budget = 20.0 if tier == "quick" else 180.0
    state = {"first_fail_t": None, "last_fail": None}

    def body(case):
        if state["first_fail_t"] is not None and time.time() - state["first_fail_t"] > shrink_budget:
            raise _Abort()
        try:
            info = guarded(sub.oracle, case)
        except KnownFinding as k:
            rep["known"][k.fid] = rep["known"].get(k.fid, 0) + 1
            rep["known_msg_" + k.fid] = k.msg
            rep["evaluations"] += 1
            return
        except Violation as v:
            if state["first_fail_t"] is None:
                state["first_fail_t"] = time.time()
            state["last_fail"] = {"case": jsonable(case), "message": str(v)}
            raise
        if state["first_fail_t"] is None:
            _absorb(rep, case, info)

    test = given(sub.strategy)(body)
    test = settings(max_examples=n, database=None, deadline=None, report_multiple_bugs=False,
                    suppress_health_check=list(HealthCheck), derandomize=False,
                    phases=[Phase.explicit, Phase.generate, Phase.shrink])(test)
    test = hseed(seed * 1000 + shard)(test)
    try:
        test()
    except _Abort:
        rep["failure"] = state["last_fail"]
        rep["failure"]["shrink"] = "budget exhausted"
    except Violation:
        rep["failure"] = state["last_fail"]
    except BaseException as e:
        if not _is_flaky(e) or state["last_fail"] is None:
            raise
        rep["failure"] = dict(state["last_fail"], flaky="the violation was observed but does not reproduce on every "
                                                          "replay: the code under test is not deterministic")
    # any other exception propagates to run_sub_shard -> harness error


# ----------------------------------------------------------------------------------------------
# property-level runner

def run_property(pid, modname, tier, seed, jobs, level="exploration", assumptions=()):
    import importlib
    t0 = time.time()
    mod = importlib.import_module(modname)
    subs = mod.subs()
    _scale(mod, subs)
    tasks = []
    for s in subs:
        nsh = 1
        if s.shards and jobs > 1:
            per = 4 if tier == "quick" else jobs
            nsh = max(1, min(per, s.budget[tier] // 20 or 1))
        for sh in range(nsh):
            tasks.append((modname, s.name, tier, seed, sh, nsh))
    if jobs > 1 and len(tasks) > 1:
        import multiprocessing as mp
        ctx = mp.get_context("fork")
        with ctx.Pool(min(jobs, len(tasks))) as pool:
            reps = pool.map(run_sub_shard, tasks, chunksize=1)
    else:
        reps = [run_sub_shard(t) for t in tasks]

    # merge per sub
    merged = {}
    for r in reps:
        m = merged.setdefault(r["sub"], new_report(r["sub"]))
        m["evaluations"] += r["evaluations"]
        m["nontrivial"] |= set(r["nontrivial"])
        for k, v in r["classes"].items():
            m["classes"][k] = m["classes"].get(k, 0) + v
        for k, v in r["counts"].items():
            m["counts"][k] = m["counts"].get(k, 0) + v
        for k, v in r["samples"].items():
            m["samples"].setdefault(k, v)
        for k, v in r["known"].items():
            m["known"][k] = m["known"].get(k, 0) + v
        for k, v in r.items():
            if k.startswith("known_msg_"):
                m[k] = v
        m["exhaustive"] = m["exhaustive"] or r["exhaustive"]
        m["wall_s"] = max(m["wall_s"], r["wall_s"])
        if r["failure"] and not m["failure"]:
            m["failure"] = r["failure"]
        if r["error"] and not m["error"]:
            m["error"] = r["error"]

    violations = []
    errors = []
    known_hit = {}
    os.makedirs(os.path.join(OUT_DIR, "replays"), exist_ok=True)

    # regression tier: saved cases (confirmed defects, shrunk failures of seeded changes) are replayed on every run
    corpus_dir = os.path.join(VERIF_DIR, "corpus", pid)
    corpus_n = 0
    if os.path.isdir(corpus_dir):
        table = {s.name: s for s in subs}
        for fn in sorted(os.listdir(corpus_dir)):
            if not fn.endswith(".json"):
                continue
            path = os.path.join(corpus_dir, fn)
            try:
                payload = json.load(open(path))
                sub = table.get(payload["sub"])
                if sub is None:
                    close = [s for n, s in table.items() if n.startswith(payload["sub"]) or payload["sub"].startswith(n)]
                    sub = (close or subs)[0]
                corpus_n += 1
                with open(os.devnull, "w") as devnull, __import__("contextlib").redirect_stdout(devnull):
                    sub.oracle(payload["case"])
            except KnownFinding as k:
                known_hit[k.fid] = known_hit.get(k.fid, 0) + 1
                known_hit.setdefault("_msg_" + k.fid, k.msg)
            except Violation as v:
                violations.append((f"corpus:{fn}", path, str(v)))
            except Exception:
                errors.append((f"corpus:{fn}", traceback.format_exc()))
    for s in subs:
        m = merged[s.name]
        if m["error"]:
            errors.append((s.name, m["error"]))
        if m["failure"]:
            payload = {"property": pid, "sub": s.name, "tier": tier, "seed": seed, **m["failure"]}
            h = hashlib.sha1(canon(payload["case"]).encode()).hexdigest()[:10]
            path = os.path.join(OUT_DIR, "replays", f"{pid}-{s.name}-{h}.json")
            with open(path, "w") as f:
                json.dump(payload, f, indent=1, sort_keys=True)
            violations.append((s.name, path, m["failure"]["message"]))
        for k, v in m["known"].items():
            known_hit[k] = known_hit.get(k, 0) + v
            known_hit.setdefault("_msg_" + k, m.get("known_msg_" + k, ""))

    health = getattr(mod, "health", None)
    if health and not errors:
        for msg in health(merged) or []:
            errors.append(("health", msg))

    # evidence
    evaluations = sum(m["evaluations"] for m in merged.values())
    distinct = sum(len(m["nontrivial"]) for m in merged.values())
    samples = []
    for s in subs:
        for cls, smp in merged[s.name]["samples"].items():
            samples.append({"sub": s.name, "class": cls, **smp})
    if not samples:
        samples = [{"note": "no non-trivial case was produced"}]
    rules = "; ".join(f"[{s.name}] {s.rule}" for s in subs if s.rule)
    coverage = {
        "evaluations": evaluations,
        "distinct_nontrivial": distinct,
        "rule": (getattr(mod, "RULE", "") + " " + rules).strip(),
        "samples": samples[:40],
        "sub_checks": {s.name: {"evaluations": merged[s.name]["evaluations"],
                                "distinct_nontrivial": len(merged[s.name]["nontrivial"]),
                                "classes": merged[s.name]["classes"],
                                "counts": merged[s.name]["counts"],
                                "exhaustive": merged[s.name]["exhaustive"],
                                "wall_s": round(merged[s.name]["wall_s"], 2),
                                "known_findings_hit": merged[s.name]["known"]}
                       for s in subs},
        "known_findings_hit": {k: v for k, v in known_hit.items() if not k.startswith("_msg_")},
        "excluded_by_known_finding": sum(v for k, v in known_hit.items() if not k.startswith("_msg_")),
        "corpus_cases_replayed": corpus_n,
        "repo": REPO,
    }
    extra = getattr(mod, "evidence_extra", None)
    if extra:
        coverage.update(extra())
    evidence = {
        "property_id": pid, "tier": tier, "seed": int(seed), "level": level,
        "coverage": coverage,
        "assumptions": list(getattr(mod, "ASSUMPTIONS", [])) + list(assumptions),
        "wall_s": round(time.time() - t0, 2),
        "violations": len(violations),
    }
    os.makedirs(os.path.join(OUT_DIR, "evidence"), exist_ok=True)
    with open(os.path.join(OUT_DIR, "evidence", f"{pid}.json"), "w") as f:
        json.dump(jsonable(evidence), f, indent=1, sort_keys=True)

    for k in sorted(k for k in known_hit if not k.startswith("_msg_")):
        text = KNOWN.get(k, {}).get("text", "")
        print(f"KNOWN-FINDING: property={pid} id={k} {text} (met {known_hit[k]} times this run)")
    for name, path, msg in violations:
        print(f"VIOLATION property={pid} replay={path}")
        print(f"  sub-check {name}: {msg[:1500]}")
        for extra in ((merged.get(name) or {}).get("failure") or {}).get("also", [])[:25]:
            print(f"    also: {extra}")
    for name, err in errors:
        print(f"HARNESS-ERROR property={pid} sub-check {name}:\n{err}", file=sys.stderr)
    print(f"{pid} {tier} seed={seed}: {evaluations} cases, {distinct} distinct non-trivial, "
          f"{len(violations)} violations, {len(errors)} harness errors, {evidence['wall_s']} s")
    if violations:
        return 1
    if errors:
        return 2
    return 0


def replay(pid, modname, path):
    import importlib
    mod = importlib.import_module(modname)
    payload = json.load(open(path))
    table = {s.name: s for s in mod.subs()}
    sub = table.get(payload["sub"])
    if sub is None:  # sub-check renamed or split since the file was written: same oracle family by prefix, else the first
        close = [s for n, s in table.items() if n.startswith(payload["sub"]) or payload["sub"].startswith(n)]
        sub = (close or list(table.values()))[0]
    try:
        with open(os.devnull, "w") as devnull, __import__("contextlib").redirect_stdout(devnull):
            sub.oracle(payload["case"])
    except KnownFinding as k:
        print(f"KNOWN-FINDING: property={pid} id={k.fid} {k.msg}")
        return 0
    except Violation as v:
        print(f"VIOLATION property={pid} replay={path}")
        print(f"  sub-check {sub.name}: {str(v)[:3000]}")
        return 1
    print(f"{pid} replay {path}: property holds on this case")
    return 0

"""Construction of library objects (GEMINIs, estimators) from drawn specs. Imports gemclus from the tree under test."""
import warnings

import numpy as np
from hypothesis import strategies as st

from . import gens
from .harness import import_repo

import_repo()
import gemclus.gemini as G  # noqa: E402

FDIV = {"kl": "KLGEMINI", "tv": "TVGEMINI", "hellinger": "HellingerGEMINI", "chi2": "ChiSquareGEMINI"}


class _FeedSparse:
    """hands every affinity to the wrapped objective as a scipy sparse matrix (attributes are those of the objective)"""

    def __init__(self, g):
        object.__setattr__(self, "_g", g)

    def __getattr__(self, k):
        return getattr(object.__getattribute__(self, "_g"), k)

    def __setattr__(self, k, v):
        setattr(object.__getattribute__(self, "_g"), k, v)

    def _sp(self, A):
        import scipy.sparse as sp
        return sp.csr_matrix(A)

    def __call__(self, P, A, return_grad=False):
        return self._g(P, self._sp(A), return_grad)

    def evaluate(self, P, A, return_grad=False):
        return self._g.evaluate(P, self._sp(A), return_grad)


def make_mmd(a, ovo, X):
    """Returns (gemini, affinity obtained through compute_affinity, harness affinity)."""
    Aref = gens.ref_affinity_for_form(a, X)
    if a["form"] == "named":
        g = G.MMDGEMINI(ovo=ovo, kernel=a["name"], kernel_params=dict(a["params"]) if a["params"] else None)
        A = g.compute_affinity(X)
    elif a["form"] == "callable":
        g = G.MMDGEMINI(ovo=ovo, kernel=gens.callable_affinity(a))
        A = g.compute_affinity(X)
    elif a["form"] == "sk_callable":
        g = G.MMDGEMINI(ovo=ovo, kernel=gens.sk_function(a), kernel_params=dict(a["params"]) if a["params"] else None)
        with warnings.catch_warnings():
            warnings.simplefilter("ignore")
            A = g.compute_affinity(X)
    elif a["form"] == "sparse":
        g = _FeedSparse(G.MMDGEMINI(ovo=ovo, kernel="precomputed"))
        A = Aref.copy()
    elif a["form"] == "foreign":
        g = G.MMDGEMINI(ovo=ovo, kernel=a["name"], kernel_params=dict(a["params"]) if a["params"] else None)
        A = Aref.copy()
    else:
        g = G.MMDGEMINI(ovo=ovo, kernel="precomputed")
        A = g.compute_affinity(X, Aref)
    return g, A, Aref


def make_wass(a, ovo, X):
    Aref = gens.ref_affinity_for_form(a, X)
    if a["form"] == "named":
        g = G.WassersteinGEMINI(ovo=ovo, metric=a["name"], metric_params=dict(a["params"]) if a["params"] else None)
        A = g.compute_affinity(X)
    elif a["form"] == "callable":
        g = G.WassersteinGEMINI(ovo=ovo, metric=gens.callable_affinity(a))
        A = g.compute_affinity(X)
    elif a["form"] == "sk_callable":
        g = G.WassersteinGEMINI(ovo=ovo, metric=gens.sk_function(a), metric_params=dict(a["params"]) if a["params"] else None)
        with warnings.catch_warnings():
            warnings.simplefilter("ignore")
            A = g.compute_affinity(X)
    elif a["form"] == "foreign":
        g = G.WassersteinGEMINI(ovo=ovo, metric=a["name"], metric_params=dict(a["params"]) if a["params"] else None)
        A = Aref.copy()
    else:
        g = G.WassersteinGEMINI(ovo=ovo, metric="precomputed")
        A = g.compute_affinity(X, Aref)
    return g, A, Aref


@st.composite
def gemini_spec(draw, bases=("kl", "tv", "hellinger", "chi2", "mmd", "wasserstein"), kernel_forms=None, metric_forms=None,
                foreign=False):
    """foreign=True (objective-level checks only) adds matrices unrelated to the kernel / metric named at construction"""
    base = draw(st.sampled_from(list(bases)))
    gs = {"base": base, "ovo": draw(st.booleans())}
    if base == "mmd":
        gs["a"] = draw(gens.kernel_spec(forms=kernel_forms or (("named", "callable", "precomputed", "psd", "indef") + (("foreign", "sk_callable", "sparse") if foreign else ()))))
    elif base == "wasserstein":
        gs["a"] = draw(gens.metric_spec(forms=metric_forms or (("named", "precomputed", "randdist") + (("foreign", "sk_callable") if foreign else ()))))
    else:
        gs["a"] = None
    if foreign and draw(st.integers(0, 3)) == 0:
        gs["reconf"] = True
    return gs


def _decoy(g, a, X):
    """The objective is a pure function of (predictions, affinity): asking the same object for the affinity of another
    data set of the same size in between must not change later evaluations (no state may leak through the object)."""
    rs = np.random.RandomState(a["aseed"] % 1000 + 1)
    c = [1.7, 1.7, 1e12, 1e-12][a["aseed"] % 4]  # the other data set may well be in other units
    X2 = np.abs(X[rs.permutation(len(X))] * c + 0.3 * min(c, 1.0)) if gens.needs_nonneg(a) else X[rs.permutation(len(X))] * c + 0.3 * min(c, 1.0)
    try:
        if a["form"] in ("named", "callable", "sk_callable"):
            g.compute_affinity(X2)
        else:
            g.compute_affinity(X2, gens.ref_affinity_for_form(a, X2))
    except Exception:
        pass


def make_gemini(gs, X, decoy=True):
    """(gemini object, affinity as float64 C array or None, label)"""
    base, ovo, a = gs["base"], gs["ovo"], gs.get("a")
    target_ovo = ovo
    if gs.get("reconf"):
        ovo = not ovo  # constructed in the other mode, used once, then switched through the public attribute
    if base == "mmd":
        g, A, _ = make_mmd(a, ovo, X)
        A = np.ascontiguousarray(A, dtype=np.float64)
        if decoy:
            _decoy(g, a, X)
    elif base == "wasserstein":
        g, A, _ = make_wass(a, ovo, X)
        A = np.ascontiguousarray(A, dtype=np.float64)
        if decoy:
            _decoy(g, a, X)
    else:
        g, A = getattr(G, FDIV[base])(ovo=ovo), None
    ovo = target_ovo
    label = f"{type(g).__name__}(ovo={ovo}" + (f", {a['form']}:{a['name']}{a['params']})" if a else ")")
    if gs.get("reconf"):
        # the object was constructed and used in another configuration (other mode, other epsilon) and then re-configured
        # through its public attributes: nothing of the construction or of the first use may survive
        g.epsilon = 1e-3
        rs = np.random.RandomState(7)
        n = len(X)
        D0 = rs.dirichlet(np.ones(3), size=max(n, 1))
        try:
            g(D0, A, return_grad=bool(rs.randint(2)))
        except Exception:
            pass
        g.ovo = ovo
        g.epsilon = 1e-12
        label += " [constructed and evaluated with ovo flipped and epsilon=1e-3, then re-configured]"
    return g, A, label


def gs_needs_nonneg(gs):
    return gens.needs_nonneg(gs.get("a"))


def gs_class(gs):
    return f"{gs['base']}_{'ovo' if gs['ovo'] else 'ova'}"

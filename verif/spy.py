"""Outside-in observation of a real fit / path: no source hook, only attributes wrapped at run time.

* OptimiserSpy  - wraps sklearn's BaseOptimizer.update_params (class attribute, restored on exit) and calls
                  `on_step(params, grads)` *before* every real optimiser update.
* BatchRecorder - installed on the *instance* attribute `_batchify` (before any mlcl decoration); records the array
                  the loop asked to split, the affinity, and every yielded (rows, affinity block) pair.
* ValScoreSpy   - wraps gemclus.sparse._base_sparse.compute_val_score (module attribute looked up at call time).
"""
import contextlib

import numpy as np
from sklearn.neural_network import _stochastic_optimizers as _so


@contextlib.contextmanager
def optimiser_spy(on_step=None, after=None):
    orig = _so.BaseOptimizer.update_params

    def spy(self, params, grads):
        if on_step is not None:
            on_step(self, params, grads)
        res = orig(self, params, grads)
        if after is not None:
            after(self, params, grads)
        return res

    _so.BaseOptimizer.update_params = spy
    try:
        yield
    finally:
        _so.BaseOptimizer.update_params = orig


class BatchRecorder:
    """Wraps est._batchify. `epochs` is a list of dicts {full, affinity, batches:[(rows, aff_block)]}; `last` is the
    most recent yielded pair (what the training step that follows works on)."""

    def __init__(self, est, keep=True):
        self.est = est
        self.orig = est._batchify
        self.epochs = []
        self.last = None
        self.keep = keep
        est._batchify = self

    def __call__(self, X, affinity_matrix=None, random_state=None):
        ep = {"full": X, "affinity": affinity_matrix, "batches": []}
        if self.keep:
            self.epochs.append(ep)
        else:
            self.epochs = [ep]
        for xb, ab in self.orig(X, affinity_matrix, random_state):
            ep["batches"].append((xb, ab))
            self.last = (xb, ab)
            yield xb, ab

    def remove(self):
        self.est._batchify = self.orig


@contextlib.contextmanager
def val_score_spy(on_call):
    from gemclus.sparse import _base_sparse as bs
    orig = bs.compute_val_score

    def spy(clf, X, y, batch_size, gemini_objective):
        res = orig(clf, X, y, batch_size, gemini_objective)
        on_call(clf, X, y, batch_size, res)
        return res

    bs.compute_val_score = spy
    try:
        yield
    finally:
        bs.compute_val_score = orig


def rows_to_indices(full, rows):
    """Positions in `full` of the rows of a batch; None if a row is not a row of `full`, "ambiguous" if the rows of
    `full` are not unique (e.g. a cosine kernel of one-dimensional data)."""
    idx = []
    for r in np.atleast_2d(rows):
        hits = np.where((full == r).all(axis=1))[0]
        if len(hits) == 0:
            return None
        if len(hits) > 1:
            return "ambiguous"
        idx.append(int(hits[0]))
    return idx

"""Checks, from inside a real fit, that the direction handed to the optimiser for every parameter is the negative
gradient of  GEMINI(model(batch)) - penalty + constraint energy  (C03; reused by C14 and C17)."""
import numpy as np

from . import estimators as E
from .deriv import compare
from .harness import Violation
from .refs import gemini_ref as R
from .refs import mlcl_ref


class StepChecker:
    def __init__(self, est, spec, X, recorder, mlcl=None, dseed=0, max_dirs=3, check_all_steps=False):
        self.est, self.spec, self.X, self.rec, self.mlcl = est, spec, X, recorder, mlcl
        self.rs = np.random.RandomState(dseed)
        self.dseed = dseed
        self.max_dirs = max_dirs
        self.check_all = check_all_steps
        self.gemini = est.get_gemini()
        self.base, self.ovo = E.base_of_gemini(self.gemini)
        self.step = 0
        self.stats = {"steps_seen": 0, "steps_checked": 0, "directions_accepted": 0, "kink_skipped": 0,
                      "illconditioned_skipped": 0, "nonzero_derivatives": 0, "nan_gradient_steps": 0}
        self.full_kernel = E.kernelrim_kernel(spec, X, X) if spec["cls"] == "KernelRIM" else None
        self.params_moved = False
        self.initial = None

    # ------------------------------------------------------------------------------------------
    def _batch(self):
        xb, ab = self.rec.last
        if self.mlcl is not None:  # the recorder sits under the decoration and sees sample indices
            idx = np.asarray(xb).astype(int)
            rows = (self.full_kernel if self.full_kernel is not None else self.X)[idx]
            return rows, ab, idx
        return xb, ab, None

    def _score(self, P, Ab):
        if self.base == "mmd":
            return R.mmd_longdouble(P, Ab, self.ovo, self.gemini.epsilon)
        return float(np.asarray(self.gemini(P, Ab)))

    def _objective(self, Xb, Ab, idx):
        P = self.est._infer(Xb, retain=False)
        val = self._score(P, Ab)
        cls = self.spec["cls"]
        if cls == "RIM":
            val -= self.spec["reg"] * float(np.sum(self.est.W_ ** 2))
        elif cls == "KernelRIM":
            W = self.est.W_
            val -= self.spec["reg"] * float(np.sum(W * (self.full_kernel @ W)))
        if self.mlcl is not None:
            val += mlcl_ref.energy(P, idx, self.mlcl["ml"], self.mlcl["cl"], self.mlcl["factor"])
            if self.mlcl.get("again"):  # a second decoration adds its own energy with its own weight
                again = self.mlcl["again"]
                val += mlcl_ref.energy(P, idx, again["ml"], again["cl"], again["factor"])
        return val

    # ------------------------------------------------------------------------------------------
    def on_step(self, opt, params, grads):
        t = self.step
        self.step += 1
        self.stats["steps_seen"] += 1
        if self.initial is None:
            self.initial = [p.copy() for p in params]
        elif not self.params_moved:
            self.params_moved = any(not np.array_equal(a, b) for a, b in zip(self.initial, params))
        if any(not np.all(np.isfinite(g)) for g in grads):
            self.stats["nan_gradient_steps"] += 1
            raise Violation(f"{E.label(self.spec)}: a non-finite gradient reaches the optimiser at step {t}")
        if not self.check_all and t >= 4 and (t * 2654435761 + self.dseed) % 4 != 0:
            return
        Xb, Ab, idx = self._batch()
        P0 = self.est._infer(Xb, retain=False)
        if Ab is not None and float(np.max(np.abs(Ab))) < 1e-12:
            # the affinity of this batch is rounding noise (cosine distances of collinear points): nothing to differentiate
            self.stats["illconditioned_skipped"] += 1
            return
        cond = R.mmd_condition(P0, Ab, self.ovo, self.gemini.epsilon) if self.base == "mmd" else 0.0
        if cond > 1e-3:
            self.stats["illconditioned_skipped"] += 1
            return
        # the library forms squared MMDs as a+c-2b in float64: their relative rounding noise `cond` is inherited by the
        # gradient (which divides by the distance); the comparison allows for it
        self._floor_rel = 1e-7 + 8 * cond
        self.stats["steps_checked"] += 1
        f0 = self._objective(Xb, Ab, idx)
        S = max(R.natural_scale(self.base, Ab), abs(f0))
        for pi, (p, g) in enumerate(zip(params, grads)):
            g = np.asarray(g)
            if g.shape != p.shape:
                raise Violation(f"{E.label(self.spec)}: step {t}: direction for parameter {pi} has shape {g.shape}, "
                                f"parameter has shape {p.shape}")
            dirs = []
            if p.size <= 12:
                for j in range(p.size):
                    V = np.zeros(p.size)
                    V[j] = 1.0
                    dirs.append(V.reshape(p.shape))
            else:
                for _ in range(self.max_dirs):
                    V = self.rs.randn(*p.shape)
                    dirs.append(V / np.abs(V).max())
            saved = p.copy()
            try:
                for V in dirs:
                    an = -float(np.sum(g * V))
                    # a step of 1e-4 must be representable on top of the parameter: with weights beyond 1e5 (diverged
                    # training) the realised perturbation differs from the intended one by more than 1e-6 relative
                    moved = V != 0
                    if np.max(np.spacing(np.abs(saved[moved]))) > 1e-6 * 1e-4 * np.max(np.abs(V[moved])):
                        self.stats["unrepresentable_step_skipped"] = self.stats.get("unrepresentable_step_skipped", 0) + 1
                        continue

                    def F(h, V=V):
                        p[...] = saved + h * V
                        try:
                            return self._objective(Xb, Ab, idx)
                        finally:
                            p[...] = saved

                    status, info = compare(F, f0, an, S, floor_rel=self._floor_rel, retry_h=1e-6)  # ReLU patterns, TV signs, transport bases may change within 1e-4
                    if status == "kink":
                        self.stats["kink_skipped"] += 1
                        continue
                    if status == "nonfinite":
                        raise Violation(f"{E.label(self.spec)}: step {t}: objective not finite near the current "
                                        f"parameters: {info}")
                    if status == "bad":
                        raise Violation(
                            f"{E.label(self.spec)}: step {t}, batch of {len(Xb)} rows: the direction given to the optimiser "
                            f"for parameter #{pi} (shape {p.shape}) is not the negative gradient of the batch objective: "
                            f"-<direction,V>={info['analytic']!r} but d/dt objective={info['numeric']!r} "
                            f"(tolerance {info['tol']:.3g})")
                    self.stats["directions_accepted"] += 1
                    if abs(an) > 1e-9 * S:
                        self.stats["nonzero_derivatives"] += 1
            finally:
                p[...] = saved

"""Drawn (JSON-able) estimator specifications for the 18 GemClus estimators and their construction.

A spec describes the constructor arguments in plain data; GEMINI instances, callables and precomputed matrices are
encoded by sub-specs and materialised by `build`.  `describe` gives the harness's own reading of the documentation:
which distance / OvA-OvO mode / affinity the estimator is documented to train and score with.
"""
import numpy as np
from hypothesis import strategies as st
from sklearn.metrics import pairwise_distances, pairwise_kernels

from . import gens, objs
from .harness import import_repo
from .refs import gemini_ref as R

import_repo()
import gemclus  # noqa: E402
from gemclus import linear, mlp, sparse, nonparametric, tree  # noqa: E402
import gemclus.gemini as G  # noqa: E402

CLASSES = {
    "LinearModel": linear.LinearModel, "LinearMMD": linear.LinearMMD, "LinearWasserstein": linear.LinearWasserstein,
    "RIM": linear.RIM, "KernelRIM": linear.KernelRIM,
    "MLPModel": mlp.MLPModel, "MLPMMD": mlp.MLPMMD, "MLPWasserstein": mlp.MLPWasserstein,
    "SparseLinearModel": sparse.SparseLinearModel, "SparseLinearMMD": sparse.SparseLinearMMD,
    "SparseLinearMI": sparse.SparseLinearMI, "SparseMLPModel": sparse.SparseMLPModel, "SparseMLPMMD": sparse.SparseMLPMMD,
    "CategoricalModel": nonparametric.CategoricalModel, "CategoricalMMD": nonparametric.CategoricalMMD,
    "CategoricalWasserstein": nonparametric.CategoricalWasserstein,
    "Douglas": tree.Douglas, "Kauri": tree.Kauri,
}
GRADIENT_MODELS = [c for c in CLASSES if c != "Kauri"]
GENERIC = ["LinearModel", "MLPModel", "SparseLinearModel", "SparseMLPModel", "CategoricalModel", "Douglas"]
MMD_CLASSES = ["LinearMMD", "MLPMMD", "SparseLinearMMD", "SparseMLPMMD", "CategoricalMMD"]
WASS_CLASSES = ["LinearWasserstein", "MLPWasserstein", "CategoricalWasserstein"]
MI_CLASSES = ["RIM", "KernelRIM", "SparseLinearMI"]
SPARSE = ["SparseLinearModel", "SparseLinearMMD", "SparseLinearMI", "SparseMLPModel", "SparseMLPMMD"]
MLPS = ["MLPModel", "MLPMMD", "MLPWasserstein", "SparseMLPModel", "SparseMLPMMD"]
CATEGORICAL = ["CategoricalModel", "CategoricalMMD", "CategoricalWasserstein"]
NO_BATCH_ARG = CATEGORICAL  # constructors without batch_size
INDUCTIVE = [c for c in CLASSES if c not in CATEGORICAL]

# metric names the estimators' own validation accepts (sklearn PAIRWISE_DISTANCE_FUNCTIONS minus 'precomputed')
ESTIMATOR_METRICS = ["cityblock", "cosine", "euclidean", "l1", "l2", "manhattan", "haversine", "nan_euclidean"]


@st.composite
def gemini_arg(draw, names=None, allow_instance=True):
    """The `gemini` argument of a generic estimator: a registry name, None or an instance."""
    kinds = ["name", "name", "none"] + (["instance"] if allow_instance else [])
    kind = draw(st.sampled_from(kinds))
    if kind == "name":
        return {"kind": "name", "name": draw(st.sampled_from(sorted(names or R.NAMES)))}
    if kind == "none":
        return {"kind": "none"}
    return {"kind": "instance", "gs": draw(objs.gemini_spec())}


@st.composite
def groups_arg(draw, d):
    """None, a full partition or a partial list of disjoint groups of feature indices."""
    mode = draw(st.sampled_from(["none", "none", "partition", "partial", "interleaved"]))
    if mode == "none" or d < 1:
        return None
    if mode == "interleaved":
        if d < 2:
            return None
        k = draw(st.integers(2, min(3, d)))
        return [list(range(j, d, k)) for j in range(k)][:draw(st.integers(1, k))]
    perm = draw(st.permutations(range(d)))
    if mode == "partial":
        perm = perm[:draw(st.integers(1, d))]
    cuts = sorted(draw(st.sets(st.integers(1, max(1, len(perm) - 1)), max_size=max(0, len(perm) - 1)))) if len(perm) > 1 else []
    out, prev = [], 0
    for c in cuts + [len(perm)]:
        if c > prev:
            out.append([int(i) for i in perm[prev:c]])
            prev = c
    if draw(st.integers(0, 7)) == 0:
        # a declared variable that contributes no column (one-hot block of a single category with drop='first')
        out.insert(draw(st.integers(0, len(out))), [])
    return out


@st.composite
def est_spec(draw, classes=None, n_max=12, d_max=4, k_max=3, hidden_max=4, iter_max=3, lr=(0.01, 0.1, 0.5),
             cuts_max=2, batch_sizes=True, default_lr=False, gem_names=None, allow_instance=True, kernel_forms=None,
             metric_forms=None, metric_names=None, n_min=None, d_min=1, xkinds=("normal", "grid", "scaled", "blobs", "line", "sorted", "mixed_units")):
    cls = draw(st.sampled_from(sorted(classes or GRADIENT_MODELS)))
    K = draw(st.integers(1, k_max))
    n = draw(st.integers(max(K, n_min or 1), max(n_max, K)))
    d = draw(st.integers(d_min, d_max))
    s = {"cls": cls, "n": n, "d": d, "n_clusters": K, "max_iter": draw(st.integers(1, iter_max)),
         "solver": draw(st.sampled_from(["sgd", "adam"])), "random_state": draw(st.integers(0, 10 ** 6)),
         "x": {"d": d, "xseed": draw(gens.seeds), "xkind": draw(st.sampled_from(list(xkinds)))}}
    if draw(st.integers(0, 5)) == 0:
        s["verbose"] = True  # stdout is discarded by the harness; verbose branches are code paths too
    if draw(st.integers(0, 2)) == 0:
        s["ntype"] = draw(gens.seeds)
    if not default_lr:
        s["learning_rate"] = draw(st.sampled_from(list(lr)))
    if cls not in NO_BATCH_ARG and batch_sizes:
        s["batch_size"] = draw(st.one_of(st.none(), st.integers(1, n + 2)))
    if cls in GENERIC:
        s["gemini"] = draw(gemini_arg(names=gem_names, allow_instance=allow_instance))
    if cls in MMD_CLASSES:
        s["ovo"] = draw(st.booleans())
        s["aff"] = draw(gens.kernel_spec(forms=kernel_forms or ("named", "callable", "precomputed")))
    if cls in WASS_CLASSES:
        s["ovo"] = draw(st.booleans())
        s["aff"] = draw(gens.metric_spec(forms=metric_forms or ("named", "callable", "precomputed"),
                                         names=metric_names or ESTIMATOR_METRICS))
        if s["aff"]["name"] == "haversine":
            s["d"] = s["x"]["d"] = 2
    if cls in ("RIM", "KernelRIM"):
        s["reg"] = draw(st.sampled_from([0.0, 0.1, 1.0, 1e-6]))
    if cls == "KernelRIM":
        s["base_kernel"] = draw(gens.kernel_spec(forms=("named", "callable2")))
    if cls in MLPS:
        s["n_hidden_dim"] = draw(st.integers(1, hidden_max))
    if cls in SPARSE:
        s["alpha"] = draw(st.sampled_from([0.0, 0.01, 0.1, 1.0, 10.0, 1e-6]))
        s["groups"] = draw(groups_arg(s["d"]))
        if s["groups"] is not None:
            s["gcont"] = draw(st.one_of(st.none(), gens.seeds))
        if cls != "SparseLinearMI":
            s["dynamic"] = draw(st.booleans())
    if cls in ("SparseMLPModel", "SparseMLPMMD"):
        s["M"] = draw(st.sampled_from([0.0, 0.1, 1.0, 10.0, 1e-6, 100.0]))
    if cls == "Douglas":
        s["n_cuts"] = draw(st.integers(1, cuts_max))
        s["temperature"] = draw(st.sampled_from([0.05, 0.1, 1.0, 10.0]))
        mask = draw(st.one_of(st.none(), st.lists(st.booleans(), min_size=s["d"], max_size=s["d"])))
        if mask is not None and not any(mask):
            mask[draw(st.integers(0, s["d"] - 1))] = True
        s["feature_mask"] = mask
    if s["x"]["xkind"] == "mixed_units":
        # columns in units of 1e5 are 'huge' data for models whose features grow like |x|^2..|x|^6 (legitimate overflow of
        # fixed-step descent, see C04/C17): those keep unit-scale data
        names = [a["name"] for a in (s.get("aff"), s.get("base_kernel"), (s.get("gemini") or {}).get("gs", {}).get("a")) if a]
        if cls == "KernelRIM" or any(nm in ("poly", "polynomial") for nm in names):
            s["x"]["xkind"] = "normal"
    return s


# ---------------------------------------------------------------------------------------------------------------
def _data_nonneg(s):
    if gens.needs_nonneg(s.get("aff")) or (s.get("base_kernel") and s["base_kernel"]["name"] in gens.NONNEG_KERNELS):
        return True
    gem = s.get("gemini")
    if gem and gem["kind"] == "instance" and objs.gs_needs_nonneg(gem["gs"]):
        return True
    return False


def build_data(s):
    X = gens.build_X(s["x"], s["n"], nonneg=_data_nonneg(s), d=s["d"])
    aff = s.get("aff")
    if aff and aff["fam"] == "metric" and aff["name"] == "haversine":
        rs = np.random.RandomState(s["x"]["xseed"])
        X = np.column_stack([rs.uniform(-1.5, 1.5, s["n"]), rs.uniform(-3.1, 3.1, s["n"])])
    return np.ascontiguousarray(X, dtype=np.float64)


def kernel2(aspec):
    """Callable with KernelRIM's convention f(X, Y)."""
    return gens.flavour(lambda X, Y: 1.5 * pairwise_kernels(X, Y, metric=aspec["name"], **aspec["params"]), aspec)


def describe(s):
    """(base, ovo, affinity_fn) documented for this spec; affinity_fn(X) -> harness matrix or None."""
    cls = s["cls"]
    if cls in GENERIC:
        gem = s["gemini"]
        if gem["kind"] == "none":
            return "mmd", False, lambda X: pairwise_kernels(X, metric="linear")
        if gem["kind"] == "name":
            base, ovo = R.NAMES[gem["name"]]
            if base == "mmd":
                return base, ovo, lambda X: pairwise_kernels(X, metric="linear")
            if base == "wasserstein":
                return base, ovo, lambda X: pairwise_distances(X, metric="euclidean")
            return base, ovo, lambda X: None
        gs = gem["gs"]
        if gs["a"] is None:
            return gs["base"], gs["ovo"], lambda X: None
        return gs["base"], gs["ovo"], lambda X: gens.ref_affinity_for_form(gs["a"], X)
    if cls in MMD_CLASSES:
        return "mmd", s["ovo"], lambda X: gens.ref_affinity_for_form(s["aff"], X)
    if cls in WASS_CLASSES:
        return "wasserstein", s["ovo"], lambda X: gens.ref_affinity_for_form(s["aff"], X)
    if cls in MI_CLASSES:
        return "kl", False, lambda X: None
    raise ValueError(cls)


def uses_precomputed(s):
    a = s.get("aff")
    if a and a["form"] in ("precomputed", "psd", "indef", "randdist"):
        return True
    gem = s.get("gemini")
    if gem and gem["kind"] == "instance" and gem["gs"]["a"] and gem["gs"]["a"]["form"] in ("precomputed", "psd", "indef", "randdist"):
        return True
    return False


def build(s, X=None):
    """Returns (estimator, y) where y is the matrix to pass as second argument of fit/score (None unless precomputed)."""
    cls = s["cls"]
    kw = {k: s[k] for k in ("n_clusters", "max_iter", "learning_rate", "solver", "batch_size", "random_state", "reg", "verbose",
                            "n_hidden_dim", "alpha", "groups", "dynamic", "M", "n_cuts", "temperature", "ovo") if k in s}
    if s.get("groups") is not None:
        kw["groups"] = gens.group_containers([list(g) for g in s["groups"]], s.get("gcont"))
    if X is None:
        X = build_data(s)
    y = None
    if cls in GENERIC:
        gem = s["gemini"]
        if gem["kind"] == "none":
            kw["gemini"] = None
        elif gem["kind"] == "name":
            kw["gemini"] = gem["name"]
        else:
            g, _, _ = objs.make_gemini(gem["gs"], X)
            kw["gemini"] = g
            if uses_precomputed(s):
                y = gens.ref_affinity_for_form(gem["gs"]["a"], X)
    if cls in MMD_CLASSES or cls in WASS_CLASSES:
        a = s["aff"]
        key = "kernel" if cls in MMD_CLASSES else "metric"
        if a["form"] == "named":
            kw[key] = a["name"]
            kw[key + "_params"] = dict(a["params"]) if a["params"] else None  # a fresh dict per estimator
        elif a["form"] == "callable":
            kw[key] = gens.callable_affinity(a)
            if a.get("aseed", 0) % 2:
                kw[key + "_params"] = {"gamma": 0.5}  # documented: ignored (with a warning) next to a callable
        else:
            kw[key] = "precomputed"
            y = gens.ref_affinity_for_form(a, X)
    if cls == "KernelRIM":
        bk = s["base_kernel"]
        if bk["form"] == "named":
            kw["base_kernel"] = bk["name"]
            kw["base_kernel_params"] = dict(bk["params"]) if bk["params"] else None
        else:
            kw["base_kernel"] = kernel2(bk)
            if bk.get("aseed", 0) % 2:
                kw["base_kernel_params"] = {"gamma": 0.5}  # documented: ignored (with a warning) next to a callable
    if cls == "Douglas" and s.get("feature_mask") is not None:
        kw["feature_mask"] = np.array(s["feature_mask"], dtype=bool)
    est = CLASSES[cls](**number_types(kw, s.get("ntype"), s.get("ntype_force")))
    return est, y


def number_types(kw, seed, force=None):
    """The same hyper-parameter values in the numeric types users produce (grids made with numpy, integer literals for
    real-valued parameters): np.int64 / np.int32 / narrow integer types for integers, np.float64 / np.float32 / int for reals.
    `force` = {parameter: numpy type name} pins types (used by replay files)."""
    if seed is None and not force:
        return kw
    rs = np.random.RandomState(seed or 0)
    out = {}
    for k, v in kw.items():
        c = rs.randint(7)
        if isinstance(v, bool) or v is None:
            out[k] = v
        elif isinstance(v, int):
            narrow = [t for t in (np.int8, np.uint8, np.int16) if np.iinfo(t).min <= v <= np.iinfo(t).max]
            if seed is None:
                out[k] = v
            elif c >= 5 and narrow:
                out[k] = narrow[(c - 5) % len(narrow)](v)
            else:
                out[k] = [v, np.int64(v), np.int32(v), np.intp(v), v][c % 5]
        elif isinstance(v, float):
            out[k] = [v, np.float64(v), int(v) if float(v).is_integer() and v != 0 else v, np.float64(v), v, v, v][c] if seed is not None else v
        else:
            out[k] = v
        if force and k in force and out[k] is not None:
            out[k] = getattr(np, force[k])(v)
    return out


def kernelrim_kernel(s, Xa, Xb):
    """Harness's own KernelRIM kernel between two sets of points."""
    bk = s["base_kernel"]
    Kmat = pairwise_kernels(Xa, Xb, metric=bk["name"], **bk["params"])
    return 1.5 * Kmat if bk["form"] != "named" else Kmat


def base_of_gemini(g):
    """(base, ovo) of a library GEMINI object (used to pick a well-conditioned score evaluation)."""
    name = type(g).__name__
    table = {"KLGEMINI": "kl", "MI": "kl", "TVGEMINI": "tv", "HellingerGEMINI": "hellinger", "ChiSquareGEMINI": "chi2",
             "MMDGEMINI": "mmd", "WassersteinGEMINI": "wasserstein"}
    return table[name], bool(getattr(g, "ovo", False))


def label(s):
    keys = [k for k in s if k not in ("x", "n", "d", "cls")]
    return s["cls"] + "(" + ", ".join(f"{k}={s[k]}" for k in keys) + f") on n={s['n']}, d={s['d']}"


# ---------------------------------------------------------------------------------------------------------------
# Kauri

KAURI_KERNELS = sorted(gens.KERNEL_PARAM_NAMES)


@st.composite
def kauri_spec(draw, n_max=30, d_max=4, kinds=("grid", "normal", "offset", "grid2", "const", "blobs", "line", "sorted", "onehot", "ulp")):
    n = draw(st.one_of(st.integers(max(1, n_max // 3), n_max), st.integers(1, n_max)))
    d = draw(st.integers(1, d_max))
    leaf = draw(st.sampled_from([1, 1, 2, 1, 3, 4]))
    leaf = min(leaf, n)  # ensure_min_samples = min_samples_leaf
    split = draw(st.integers(2 * leaf, 2 * leaf + 4))
    form = draw(st.sampled_from(["named", "named", "precomputed", "callable", "psd", "indef"]))
    s = {"cls": "Kauri", "n": n, "d": d,
         "max_clusters": draw(st.integers(1, 6)),
         "max_depth": draw(st.one_of(st.none(), st.integers(1, 5))),
         "min_samples_split": split, "min_samples_leaf": leaf,
         "max_features": draw(st.one_of(st.none(), st.integers(1, d + 1))),
         "max_leaves": draw(st.one_of(st.none(), st.integers(2, 8))),
         "kernel": {"fam": "kernel", "form": form, "name": draw(st.sampled_from(KAURI_KERNELS)), "params": {},
                    "aseed": draw(gens.seeds)},
         "random_state": draw(st.integers(0, 10 ** 6)),
         "x": {"d": d, "xseed": draw(gens.seeds), "xkind": draw(st.sampled_from(list(kinds)))}}
    if draw(st.integers(0, 5)) == 0:
        s["verbose"] = True
    if draw(st.integers(0, 2)) == 0:
        s["ntype"] = draw(gens.seeds)
    return s


def build_kauri_data(s):
    rs = np.random.RandomState(s["x"]["xseed"])
    n, d = s["n"], s["d"]
    kind = s["x"]["xkind"]
    if kind == "grid":
        X = rs.randint(-2, 3, size=(n, d)).astype(float)
    elif kind == "grid2":
        X = rs.randint(0, 2, size=(n, d)).astype(float)
    elif kind == "const":
        X = rs.randn(n, d)
        X[:, rs.randint(d)] = 1.0
    elif kind == "offset":  # large offsets with tiny spreads: distinct values closer than 1e-5 relative
        base = rs.choice([1000.0, 2021.0, 293.15, -5e4], size=d)
        step = rs.choice([1e-3, 1e-6, 1e-9]) * np.abs(base)
        X = base + step * rs.randint(0, 6, size=(n, d))
    elif kind == "blobs":  # an actual cluster structure: many clusters really get formed, leaves share clusters
        k = s["x"].get("blobs") or rs.randint(2, 6)
        centres = rs.randint(-1, 2, size=(k, d)) * 4.0 + rs.randn(k, d) * 0.3
        if s["x"].get("blobs"):
            centres = rs.uniform(-1, 1, size=(k, d)) * s["x"].get("blob_range", 6.0)
        X = centres[rs.randint(k, size=n)] + rs.randn(n, d) * s["x"].get("blob_std", 0.4)
        if s["x"].get("blob_round"):
            X = np.round(X, 1)
    elif kind == "line":  # equally spaced, in order
        X = np.arange(n, dtype=float)[:, None] * rs.choice([0.25, 0.5, 1.0], size=d) - rs.choice([0.0, 1.0, 2.5])
    elif kind == "sorted":
        X = rs.randn(n, d)
        X = X[np.argsort(X[:, 0])]
        if rs.randint(2):
            X = X[::-1]
    elif kind == "ulp":  # values merged from two sources that differ in the last bit (0.3 and 0.1+0.2): neighbours 1-3 ulps apart
        base = rs.choice([0.3, 1.0, 1000.0, -7.25e-3], size=d)
        X = base * (1.0 + rs.randint(0, 4, size=(n, d)) * 2.0 ** -52)
    elif kind == "onehot":  # one-hot encoded categorical variable (plus noise columns when d > 3)
        X = rs.randn(n, d)
        w = min(d, 3)
        X[:, :w] = np.eye(w)[rs.randint(w, size=n)]
    else:
        X = rs.randn(n, d)
    if s["kernel"]["name"] in gens.NONNEG_KERNELS and s["kernel"]["form"] in ("named", "precomputed", "callable"):
        X = np.abs(X)
    return np.ascontiguousarray(X, dtype=np.float64)


def kauri_callable(k):
    """Callable kernel with Kauri's convention f(x, y) on pairs of rows."""
    from sklearn.metrics.pairwise import PAIRWISE_KERNEL_FUNCTIONS
    f = PAIRWISE_KERNEL_FUNCTIONS[k["name"]]
    return gens.flavour(lambda a, b: 1.5 * float(f(a.reshape(1, -1), b.reshape(1, -1))[0, 0]), k)


def kauri_ref_kernel(s, X):
    k = s["kernel"]
    if k["form"] in ("psd", "indef"):
        return gens.ref_affinity(k, X)
    if k["form"] == "callable":
        # "the output of the callable": evaluated pair by pair by the harness too (evaluating the named kernel on the
        # whole matrix at once differs in the last digits on badly conditioned data)
        Kmat = pairwise_kernels(X, metric=kauri_callable(k))
    else:
        Kmat = pairwise_kernels(X, metric=k["name"])
    return np.ascontiguousarray(Kmat, dtype=np.float64)


def build_kauri(s, X=None):
    if X is None:
        X = build_kauri_data(s)
    k = s["kernel"]
    kw = {key: s[key] for key in ("max_clusters", "max_depth", "min_samples_split", "min_samples_leaf", "max_features",
                                   "max_leaves", "random_state", "verbose") if key in s}
    y = None
    if k["form"] == "named":
        kw["kernel"] = k["name"]
    elif k["form"] == "callable":
        kw["kernel"] = kauri_callable(k)
    else:
        kw["kernel"] = "precomputed"
        y = kauri_ref_kernel(s, X)
    return tree.Kauri(**number_types(kw, s.get("ntype"), s.get("ntype_force"))), y

"""Hypothesis strategies and the pure functions that turn drawn (JSON-able) specs into arrays / objects.

Large float arrays are never drawn element by element: the strategy draws structure and an integer seed and the array
is np.random.RandomState(seed) output, i.e. a pure function of drawn values.
"""
import numpy as np
from hypothesis import strategies as st
from sklearn.metrics import pairwise_distances, pairwise_kernels

seeds = st.integers(0, 2 ** 31 - 1)

# ---------------------------------------------------------------------------------------------------------------
# prediction matrices

P_SCALES = [0.05, 0.5, 2.0, 8.0, 20.0]


@st.composite
def p_spec(draw, n_min=1, n_max=10, k_min=2, k_max=6, scales=P_SCALES, pkinds=("softmax",)):
    ps = {"n": draw(st.integers(n_min, n_max)), "K": draw(st.integers(k_min, k_max)),
          "scale": draw(st.sampled_from(scales)), "pseed": draw(seeds)}
    kind = draw(st.sampled_from(list(pkinds)))
    if kind != "softmax":
        ps["pkind"] = kind
    return ps


# predictions with exact structure (what continuous draws never produce): entries on a coarse dyadic grid, rows that are
# rotations of one vector (exactly balanced clusters), exactly uniform rows mixed with peaked ones
STRUCTURED_P = ("softmax", "softmax", "dyadic", "rotations", "uniform_mix")


def _structured_P(ps):
    rs = np.random.RandomState(ps["pseed"])
    n, K = ps["n"], ps["K"]
    kind = ps["pkind"]
    if kind == "dyadic":
        tot = 8 if K <= 7 else 64
        C = np.ones((n, K), dtype=int)
        for i in range(n):
            C[i] += rs.multinomial(tot - K, np.ones(K) / K) if tot > K else 0
        return C / C.sum(1, keepdims=True)
    if kind == "rotations":
        base = np.ones(K)
        base[0] += rs.choice([2.0, 6.0, 14.0])
        if K > 2:
            base[1] += rs.choice([0.0, 1.0])
        base = base / base.sum()
        return np.array([np.roll(base, i % K) for i in range(n)])
    P = np.full((n, K), 1.0 / K)
    for i in range(n if K > 1 else 0):
        if rs.rand() < 0.6:
            peak = rs.choice([0.5, 0.75]) if K == 2 else rs.choice([0.5, 0.7])
            P[i] = (1.0 - peak) / (K - 1)
            P[i, rs.randint(K)] = peak
    return P


def softmax(L):
    L = L - L.max(1, keepdims=True)
    E = np.exp(L)
    return E / E.sum(1, keepdims=True)


def build_logits(ps):
    if ps.get("pkind"):
        return np.log(_structured_P(ps))
    return np.random.RandomState(ps["pseed"]).randn(ps["n"], ps["K"]) * ps["scale"]


def build_P(ps, floor=1e-9):
    """Row-stochastic matrix in the open simplex, entries in [floor, 1-floor] (epsilon clipping inactive)."""
    if ps.get("pkind"):
        return _structured_P(ps)
    P = softmax(build_logits(ps))
    if floor:
        P = np.clip(P, floor, None)
        P = P / P.sum(1, keepdims=True)
    return P


# ---------------------------------------------------------------------------------------------------------------
# data sets

LOWLEVEL_KINDS = ("normal", "grid", "scaled", "blobs", "line", "sorted", "tiny", "big")  # objective-level checks only

@st.composite
def x_spec(draw, d_min=1, d_max=4, kinds=("normal", "grid", "scaled", "blobs", "line", "sorted")):
    return {"d": draw(st.integers(d_min, d_max)), "xseed": draw(seeds), "xkind": draw(st.sampled_from(list(kinds)))}


def build_X(xs, n, nonneg=False, d=None):
    rs = np.random.RandomState(xs["xseed"])
    d = d or xs["d"]
    kind = xs.get("xkind", "normal")
    if kind == "grid":  # ties and duplicated rows
        X = rs.randint(-2, 3, size=(n, d)).astype(float)
    elif kind == "huge":  # badly scaled / un-centred but legal: factor up to 1000, offsets up to 5000
        X = rs.randn(n, d) * rs.choice([50.0, 1000.0]) + rs.choice([0.0, 100.0, 5000.0])
    elif kind == "scaled":
        X = rs.randn(n, d) * rs.choice([0.01, 1.0, 30.0]) + rs.choice([0.0, 5.0])
    elif kind == "onehot_unused":  # a one-hot block whose last category never occurs (all-zero column) + weak noise columns
        w = min(4, d)
        X = 0.3 * rs.randn(n, d)
        X[:, :w] = 0.0
        X[np.arange(n), np.arange(n) % max(1, w - 1)] = 1.0
    elif kind == "mixed_units":  # unstandardised columns: an income in euros next to a standardised score
        X = rs.randn(n, d) * rs.choice([1.0, 1e3, 1e5, 1e-3, 1.0], size=d) + rs.choice([0.0, 0.0, 50.0], size=d)
    elif kind == "sentinel":  # ordinary values mixed with a missing-value code of extreme magnitude in one column
        X = rs.randn(n, d)
        rows = rs.choice(n, size=max(1, n // 5), replace=False)
        X[rows, rs.randint(d)] = rs.choice([999999999999999.0, -1e13, 1e18])
    elif kind == "tiny":  # data in small units (metres for atomic distances): every kernel / distance is tiny but exact
        X = rs.randn(n, d) * rs.choice([1e-9, 1e-6, 1e-10, 1e-12])
    elif kind == "big":  # data in large units
        X = rs.randn(n, d) * rs.choice([1e4, 1e6])
    elif kind == "blobs":  # data with an actual cluster structure: 2-4 well separated groups
        k = rs.randint(2, 5)
        centres = rs.randint(-1, 2, size=(k, d)) * 4.0 + rs.randn(k, d) * 0.3
        X = centres[rs.randint(k, size=n)] + rs.randn(n, d) * 0.4
    elif kind == "line":  # equally spaced points: every distance value is repeated many times, samples arrive in order
        X = np.arange(n, dtype=float)[:, None] * rs.choice([0.25, 0.5, 1.0], size=d) - rs.choice([0.0, 1.0, 2.5])
    elif kind == "sorted":  # samples sorted along the first feature (ascending or descending)
        X = rs.randn(n, d)
        X = X[np.argsort(X[:, 0])]
        if rs.randint(2):
            X = X[::-1]
    else:
        X = rs.randn(n, d)
    if nonneg:
        X = np.abs(X)
    return np.ascontiguousarray(X, dtype=np.float64)


# ---------------------------------------------------------------------------------------------------------------
# kernels and metrics

KERNEL_PARAM_NAMES = {
    "linear": [], "cosine": [], "additive_chi2": [], "chi2": ["gamma"], "rbf": ["gamma"], "laplacian": ["gamma"],
    "polynomial": ["gamma", "degree", "coef0"], "poly": ["gamma", "degree", "coef0"], "sigmoid": ["gamma", "coef0"],
}
NONNEG_KERNELS = {"additive_chi2", "chi2"}
PARAM_VALUES = {"gamma": [0.1, 0.5, 2.0], "degree": [2, 3, 1], "coef0": [0.0, 1.0, -0.5]}

GEMINI_METRICS = ["cosine", "euclidean", "l2", "l1", "manhattan", "cityblock"]
METRIC_PARAM_NAMES = {"euclidean": ["squared"], "l2": ["squared"]}


@st.composite
def kernel_spec(draw, forms=("named", "callable", "precomputed", "psd", "indef"), names=None):
    form = draw(st.sampled_from(list(forms)))
    name = draw(st.sampled_from(sorted(names or KERNEL_PARAM_NAMES)))
    params = {}
    for p in KERNEL_PARAM_NAMES[name]:
        if draw(st.booleans()):
            params[p] = draw(st.sampled_from(PARAM_VALUES[p]))
    return {"fam": "kernel", "form": form, "name": name, "params": params, "aseed": draw(seeds)}


@st.composite
def metric_spec(draw, forms=("named", "precomputed", "randdist"), names=None):
    form = draw(st.sampled_from(list(forms)))
    name = draw(st.sampled_from(sorted(names or GEMINI_METRICS)))
    params = {}
    for p in METRIC_PARAM_NAMES.get(name, []):
        if draw(st.booleans()):
            params[p] = True
    return {"fam": "metric", "form": form, "name": name, "params": params, "aseed": draw(seeds)}


def needs_nonneg(aspec):
    return aspec is not None and aspec["fam"] == "kernel" and aspec["name"] in NONNEG_KERNELS \
        and aspec["form"] in ("named", "callable", "precomputed", "sk_callable")


def sk_function(aspec):
    """scikit-learn's own pairwise function object for the name (what a user imports and passes as a callable)"""
    from sklearn.metrics.pairwise import PAIRWISE_DISTANCE_FUNCTIONS, PAIRWISE_KERNEL_FUNCTIONS
    return (PAIRWISE_KERNEL_FUNCTIONS if aspec["fam"] == "kernel" else PAIRWISE_DISTANCE_FUNCTIONS)[aspec["name"]]


def ref_affinity(aspec, X):
    """The harness's own affinity matrix for a spec (scikit-learn called directly, or a seeded matrix)."""
    n = len(X)
    rs = np.random.RandomState(aspec["aseed"])
    if aspec["form"] == "psd":
        A = rs.randn(n, max(1, n // 2 + 1))
        return np.ascontiguousarray(A @ A.T)
    if aspec["form"] == "indef":
        A = rs.randn(n, n)
        return np.ascontiguousarray((A + A.T) / 2)
    if aspec["form"] == "sparse":
        # a similarity with many exact zeros (k-nearest-neighbour graph, thresholded kernel): handed to the objective as a
        # scipy sparse matrix, the reference works on the equal dense array
        rs2 = np.random.RandomState(aspec["aseed"] + 11)
        B = rs2.randn(n, max(1, n // 2 + 1))
        A = B @ B.T
        keep = rs2.rand(n, n) < 0.5
        keep = keep | keep.T | np.eye(n, dtype=bool)
        return np.ascontiguousarray(A * keep)
    if aspec["form"] == "sk_callable":
        # parameters handed over next to a callable are documented as ignored: the callable's own defaults apply
        return np.ascontiguousarray(sk_function(aspec)(X), dtype=np.float64)
    if aspec["form"] == "foreign":
        # a matrix that has nothing to do with the kernel / metric the objective was constructed with: evaluate() takes any
        # affinity (symmetric cost with zero diagonal that violates the triangle inequality / indefinite similarity)
        rs2 = np.random.RandomState(aspec["aseed"] + 7)
        if aspec["fam"] == "kernel":
            A = rs2.randn(n, n)
            return np.ascontiguousarray((A + A.T) / 2)
        A = np.abs(rs2.randn(n, n)) ** 2 + 0.05
        A = (A + A.T) / 2
        np.fill_diagonal(A, 0.0)
        return np.ascontiguousarray(A)
    if aspec["form"] == "randdist":
        A = np.abs(rs.randn(n, n)) + 0.1
        A = (A + A.T) / 2
        np.fill_diagonal(A, 0.0)
        return np.ascontiguousarray(A)
    if aspec["fam"] == "kernel":
        return np.ascontiguousarray(pairwise_kernels(X, metric=aspec["name"], **aspec["params"]), dtype=np.float64)
    return np.ascontiguousarray(pairwise_distances(X, metric=aspec["name"], **aspec["params"]), dtype=np.float64)


class _CallableObject:
    """a user-written kernel / metric object: callable, but without __name__ / __qualname__"""

    def __init__(self, f):
        self._f = f

    def __call__(self, *a):
        return self._f(*a)


def _scaled(X, Y=None, *, fam, name, params):
    f = pairwise_kernels if fam == "kernel" else pairwise_distances
    return 1.5 * f(X, Y, metric=name, **params)


def flavour(f, aspec):
    """the same function as a lambda, a functools.partial or a callable object (decided by the spec's seed)"""
    import functools
    k = aspec.get("aseed", 0) % 3
    if k == 1:
        return functools.partial(f)
    if k == 2:
        return _CallableObject(f)
    return f


def callable_affinity(aspec):
    """A callable f(X) with a recognisable output: the named function, scaled and shifted."""
    if aspec["fam"] == "kernel":
        return flavour(lambda X: 1.5 * pairwise_kernels(X, metric=aspec["name"], **aspec["params"]), aspec)
    return flavour(lambda X: 1.5 * pairwise_distances(X, metric=aspec["name"], **aspec["params"]), aspec)


def ref_affinity_for_form(aspec, X):
    A = ref_affinity(aspec, X)
    if aspec["form"] == "callable":
        return 1.5 * A
    return A


# ---------------------------------------------------------------------------------------------------------------
# feature groups in the containers a user may write them in

def group_containers(groups, seed):
    """The same groups as lists, integer arrays, or ranges (strided ones included) - per group, decided by `seed`."""
    if groups is None or seed is None:
        return groups
    rs = np.random.RandomState(seed)
    out = []
    for g in groups:
        g = [int(i) for i in g]
        c = rs.randint(5)
        if len(g) == 0:
            out.append(g if c != 1 else np.zeros(0, dtype=np.int64))
            continue
        steps = set(np.diff(g).tolist()) if len(g) >= 2 else {1}
        if c >= 3 and len(steps) == 1 and 0 not in steps:
            st_ = steps.pop()
            out.append(range(g[0], g[-1] + (1 if st_ > 0 else -1), st_))
        elif c == 1:
            out.append(np.array(g, dtype=np.int64))
        elif c == 2:
            out.append(np.array(g, dtype=np.int32))
        else:
            out.append(g)
    return out

"""Directional-derivative comparison shared by C02 / C03 / C13 (Richardson rule with a differentiability filter).

For a scalar function F(t) with F(0)=f0 and an analytic derivative `an`:
  D_h = (F(h)-F(-h))/2h, D_{h/2};  Richardson estimate (4 D_{h/2} - D_h)/3.
  The direction is skipped as a *kink* when the gap between the one-sided slopes does not shrink with h
  (gap at h/2 > 0.75 * gap at h, and above the floor): TV sign changes, transport basis changes, MMD zero distances,
  clip boundaries, ReLU pattern changes.
  Accepted error: 10*|D_h - D_{h/2}| + 1e-7*max(S, |f0|, |an|).
"""
import numpy as np


def compare(F, f0, an, scale, h=1e-4, floor_rel=1e-7, retry_h=None):
    """Returns (status, info); status in {'ok', 'kink', 'bad', 'nonfinite'}.

    retry_h: for piecewise-linear objectives (TV, Wasserstein) a direction may cross *many* tiny kinks within h (near-uniform
    predictions: thousands of |differences| close to zero); the one-sided slopes then converge linearly, which looks like
    curvature to the kink filter while the central difference is biased by O(h). A mismatch at h is therefore re-examined at
    the much smaller retry_h and only reported if it persists (a wrong gradient is wrong at every step size)."""
    status, info = _compare(F, f0, an, scale, h, floor_rel)
    if status == "bad" and retry_h is not None:
        # retry_h may be a tuple of decreasing steps (MMD under an indefinite kernel: square-root branch points of the
        # clipped pair distances can lie arbitrarily close to the point)
        for rh in (retry_h if isinstance(retry_h, (tuple, list)) else (retry_h,)):
            status2, info2 = _compare(F, f0, an, scale, rh, floor_rel)
            if status2 != "bad":
                info2["first_scale"] = info
                return status2, info2
    return status, info


def _compare(F, f0, an, scale, h, floor_rel):
    fp, fm, fp2, fm2 = F(h), F(-h), F(h / 2), F(-h / 2)
    vals = np.array([fp, fm, fp2, fm2, f0, an], dtype=float)
    if not np.all(np.isfinite(vals)):
        return "nonfinite", {"values": vals.tolist()}
    Dh = (fp - fm) / (2 * h)
    Dh2 = (fp2 - fm2) / h
    rich = (4 * Dh2 - Dh) / 3
    gap1 = abs((fp - f0) / h - (f0 - fm) / h)
    gap2 = abs((fp2 - f0) / (h / 2) - (f0 - fm2) / (h / 2))
    ref = max(scale, abs(f0))
    if gap2 > 1e-9 * max(ref, abs(Dh2)) and gap2 > 0.75 * gap1:
        return "kink", {"gap_h": gap1, "gap_h2": gap2}
    tol = 10 * abs(Dh - Dh2) + floor_rel * max(ref, abs(an))
    err = abs(an - rich)
    info = {"analytic": float(an), "numeric": float(rich), "D_h": float(Dh), "D_h2": float(Dh2), "tol": float(tol)}
    if err > tol:
        return "bad", info
    return "ok", info

"""Reference model of must-link / cannot-link constraints (written from the documentation)."""
import numpy as np


def components(pairs):
    """Union-find over arbitrary hashable indices; returns {index: representative}."""
    parent = {}

    def find(a):
        parent.setdefault(a, a)
        while parent[a] != a:
            parent[a] = parent[parent[a]]
            a = parent[a]
        return a

    for a, b in pairs:
        ra, rb = find(a), find(b)
        if ra != rb:
            parent[ra] = rb
    return {a: find(a) for a in list(parent)}


def consistent(must_link, cannot_link):
    """True iff no pair is a self pair and no cannot-link pair lies inside one must-link component."""
    for a, b in list(must_link) + list(cannot_link):
        if a == b:
            return False
    comp = components(must_link)
    for a, b in cannot_link:
        if a in comp and b in comp and comp[a] == comp[b]:
            return False
    return True


def energy(P, batch_indices, must_link, cannot_link, factor):
    """0.5*factor*(sum_CL ||p_i-p_j||^2 - sum_ML ||p_i-p_j||^2) over listed pairs with both samples in the batch.
    P rows are in batch order; batch_indices are the true sample indices of the rows."""
    pos = {int(ix): r for r, ix in enumerate(batch_indices)}
    e = 0.0
    for (i, j) in cannot_link:
        if i in pos and j in pos:
            e += 0.5 * factor * float(np.sum((P[pos[i]] - P[pos[j]]) ** 2))
    for (i, j) in must_link:
        if i in pos and j in pos:
            e -= 0.5 * factor * float(np.sum((P[pos[i]] - P[pos[j]]) ** 2))
    return e

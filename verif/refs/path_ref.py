"""Reference replay of the best-weights / history rule of the regularisation path (from the documentation)."""


def best_step(initial_score, steps, keep_threshold, n_features_total):
    """steps: list of (score, n_selected) of the completed path steps, in order.
    Returns the index of the step whose weights are the 'best weights' (-1 = the initial unpenalised fit).

    Rule: the best score is the highest score seen while all features were still selected (the initial fit included,
    updated as the path goes); the best weights are those of the last step whose score reached keep_threshold times the
    best score seen so far."""
    best = initial_score
    chosen = -1
    for i, (score, nsel) in enumerate(steps):
        if score >= best and nsel == n_features_total:
            best = score
        if score >= keep_threshold * best:
            chosen = i
    return chosen

"""Literal definitions of the GEMINI objectives (written from the documentation, independent of the library).

P is the (n, K) matrix of predictions p(y=k|x_i).  pi_k = mean_i P_ik, p(x_i|y=k) = P_ik / sum_j P_jk, p(x_i) = 1/n.
OvA:  sum_k pi_k D(p(.|k), p_data);   OvO:  sum_{a,b} pi_a pi_b D(p(.|a), p(.|b)).
chi-square family reported as (value+1)/2;  'mi' == KL OvA.
"""
import numpy as np
from scipy.optimize import linprog


def conditionals(P):
    P = np.asarray(P, dtype=float)
    n = P.shape[0]
    pi = P.mean(0)
    C = P / (n * pi)  # column k = p(x|y=k), sums to one
    return C, pi


def kl(p, q, A=None):
    return float(np.sum(p * np.log(p / q)))


def tv(p, q, A=None):
    return float(0.5 * np.sum(np.abs(p - q)))


def hellinger(p, q, A=None):
    return float(1.0 - np.sum(np.sqrt(p * q)))


def chi2(p, q, A=None):
    return float(np.sum((p - q) ** 2 / q))


def mmd(p, q, A):
    d = p - q
    return float(np.sqrt(max(d @ A @ d, 0.0)))


def w1(p, q, A):
    """Optimal value of the transport LP  min <T, A>  s.t. T 1 = p, T^T 1 = q, T >= 0  (HiGHS, not POT)."""
    n = len(p)
    if n == 1:
        return float(A[0, 0] * p[0])
    A = np.asarray(A, dtype=float)
    amax = float(np.max(np.abs(A)))
    if amax == 0.0:
        return 0.0
    # HiGHS works with absolute feasibility tolerances: normalise the costs and tighten the tolerances
    c = (A / amax).reshape(-1)
    A_eq = np.zeros((2 * n, n * n))
    for i in range(n):
        A_eq[i, i * n:(i + 1) * n] = 1.0
        A_eq[n + i, i::n] = 1.0
    b_eq = np.concatenate([p, q])
    # the constraints are redundant by one (both marginals sum to one): drop the last to help the solver
    res = None
    for opts in ({"primal_feasibility_tolerance": 1e-10, "dual_feasibility_tolerance": 1e-10},
                 {"primal_feasibility_tolerance": 1e-10, "dual_feasibility_tolerance": 1e-10, "presolve": False},
                 {}, {"presolve": False}):
        res = linprog(c, A_eq=A_eq[:-1], b_eq=b_eq[:-1], bounds=(0, None), method="highs", options=opts)
        if res.status == 0:
            break
    if res.status != 0:
        raise RuntimeError(f"transport LP did not solve: {res.message}")
    return float(res.fun) * amax


DIST = {"kl": kl, "tv": tv, "hellinger": hellinger, "chi2": chi2, "mmd": mmd, "wasserstein": w1}


def gemini(base, ovo, P, A=None):
    C, pi = conditionals(P)
    n, K = np.asarray(P).shape
    D = DIST[base]
    if not ovo:
        pdata = np.ones(n) / n
        val = sum(pi[k] * D(C[:, k], pdata, A) for k in range(K))
    else:
        val = 0.0
        for a in range(K):
            for b in range(K):
                if a == b:
                    continue  # D(p,p) = 0 for every distance used here
                val += pi[a] * pi[b] * D(C[:, a], C[:, b], A)
    if base == "chi2":
        val = (val + 1.0) / 2.0
    return float(val)


# registry names documented by the library -> (base distance, ovo)
NAMES = {
    "mmd_ova": ("mmd", False), "mmd_ovo": ("mmd", True),
    "wasserstein_ova": ("wasserstein", False), "wasserstein_ovo": ("wasserstein", True),
    "kl_ova": ("kl", False), "kl_ovo": ("kl", True), "mi": ("kl", False),
    "tv_ova": ("tv", False), "tv_ovo": ("tv", True),
    "hellinger_ova": ("hellinger", False), "hellinger_ovo": ("hellinger", True),
    "chi2_ova": ("chi2", False), "chi2_ovo": ("chi2", True),
}


def natural_scale(base, A):
    """Scale S of an objective: 1 for the f-divergences, sqrt(max|K|) for MMD, max|D| for Wasserstein."""
    if base == "mmd":
        return max(float(np.sqrt(np.max(np.abs(A)))), 1e-300)
    if base == "wasserstein":
        return max(float(np.max(np.abs(A))), 1e-300)
    return 1.0


def score_tol(base, A, ref):
    """1e-8*max(S,|ref|) (1e-6 for MMD) with an absolute floor of 1e-14: an affinity whose entries are themselves rounding
    noise (cosine distances of parallel vectors, ~1e-17) yields scores that are rounding noise too."""
    S = natural_scale(base, A)
    if base == "mmd":
        return max(1e-6 * max(S, abs(ref)), 1e-14)
    return max(1e-8 * max(S, abs(ref)), 1e-14)


def mmd_longdouble(P, A, ovo, eps=1e-12):
    """MMD GEMINI of the clipped predictions, literal difference-first form in extended precision.

    The library evaluates a+c-2b under a square root (catastrophic cancellation near one-hot predictions: the float64
    score then has plateaus of relative width 1e-3 and cannot be differentiated numerically); (p-q)^T K (p-q) with the
    difference taken first is the same mathematical function and is well conditioned."""
    ld = np.longdouble
    y = np.clip(np.asarray(P, dtype=ld), ld(eps), ld(1) - ld(eps))
    A = np.asarray(A, dtype=ld)
    n, K = y.shape
    pi = y.mean(0)
    C = y / (n * pi)
    tot = ld(0)
    if not ovo:
        for k in range(K):
            d = C[:, k] - ld(1) / n
            q = d @ A @ d
            tot += pi[k] * np.sqrt(max(q, ld(0)))
    else:
        for a in range(K):
            for b in range(a + 1, K):
                d = C[:, a] - C[:, b]
                q = d @ A @ d
                tot += 2 * pi[a] * pi[b] * np.sqrt(max(q, ld(0)))
    return float(tot)


def softmax_longdouble(L):
    L = np.asarray(L, dtype=np.longdouble)
    L = L - L.max(1, keepdims=True)
    E = np.exp(L)
    return E / E.sum(1, keepdims=True)


def mmd_condition(P, A, ovo, eps=1e-12):
    """Worst relative rounding noise eta/|Q| of the squared distances the library forms as a+c-2b (OvA) or
    A_a+A_b-2w_ab (OvO): eta = u*(sum of the magnitudes of the cancelling terms), Q from the well-conditioned form."""
    ld = np.longdouble
    y = np.clip(np.asarray(P, dtype=ld), ld(eps), ld(1) - ld(eps))
    A = np.asarray(A, dtype=ld)
    n, K = y.shape
    u = 2.3e-16 * (n + 4)
    pi = y.mean(0)
    alpha = y / pi
    Kn = A / n ** 2
    worst = 0.0
    if not ovo:
        gamma = Kn @ alpha
        a = (alpha * gamma).sum(0)
        b = gamma.sum(0)
        c = Kn.sum()
        for k in range(K):
            d = alpha[:, k] - 1
            q = abs(d @ Kn @ d)
            eta = u * (abs(a[k]) + abs(c) + 2 * abs(b[k]))
            worst = max(worst, float(eta / q) if q > 0 else np.inf)
    else:
        omega = alpha.T @ Kn @ alpha
        for a_ in range(K):
            for b_ in range(a_ + 1, K):
                d = alpha[:, a_] - alpha[:, b_]
                q = abs(d @ Kn @ d)
                eta = u * (abs(omega[a_, a_]) + abs(omega[b_, b_]) + 2 * abs(omega[a_, b_]))
                worst = max(worst, float(eta / q) if q > 0 else np.inf)
    return worst

"""Literal definitions of the GEMINI objectives (written from the documentation, independent of the library).

P is the (n, K) matrix of predictions p(y=k|x_i).  pi_k = mean_i P_ik, p(x_i|y=k) = P_ik / sum_j P_jk, p(x_i) = 1/n.
OvA:  sum_k pi_k D(p(.|k), p_data);   OvO:  sum_{a,b} pi_a pi_b D(p(.|a), p(.|b)).
chi-square family reported as (value+1)/2;  'mi' == KL OvA.
"""
import numpy as np
from scipy.optimize import linprog


def conditionals(P):
    P = np.asarray(P, dtype=float)
    n = P.shape[0]
    pi = P.mean(0)
    C = P / (n * pi)  # column k = p(x|y=k), sums to one
    return C, pi


def kl(p, q, A=None):
    return float(np.sum(p * np.log(p / q)))


def tv(p, q, A=None):
    return float(0.5 * np.sum(np.abs(p - q)))


def hellinger(p, q, A=None):
    return float(1.0 - np.sum(np.sqrt(p * q)))


def chi2(p, q, A=None):
    return float(np.sum((p - q) ** 2 / q))


def mmd(p, q, A):
    d = p - q
    return float(np.sqrt(max(d @ A @ d, 0.0)))


def w1(p, q, A):
    """Optimal value of the transport LP  min <T, A>  s.t. T 1 = p, T^T 1 = q, T >= 0  (HiGHS, not POT)."""
    n = len(p)
    if n == 1:
        return float(A[0, 0] * p[0])
    A = np.asarray(A, dtype=float)
    amax = float(np.max(np.abs(A)))
    if amax == 0.0:
        return 0.0
    # HiGHS works with absolute feasibility tolerances: normalise the costs and tighten the tolerances
    c = (A / amax).reshape(-1)
    A_eq = np.zeros((2 * n, n * n))
    for i in range(n):
        A_eq[i, i * n:(i + 1) * n] = 1.0
        A_eq[n + i, i::n] = 1.0
    b_eq = np.concatenate([p, q])
    # the constraints are redundant by one (both marginals sum to one): drop the last to help the solver
    res = linprog(c, A_eq=A_eq[:-1], b_eq=b_eq[:-1], bounds=(0, None), method="highs",
                  options={"primal_feasibility_tolerance": 1e-10, "dual_feasibility_tolerance": 1e-10})
    if res.status != 0:
        raise RuntimeError(f"transport LP did not solve: {res.message}")
    return float(res.fun) * amax


DIST = {"kl": kl, "tv": tv, "hellinger": hellinger, "chi2": chi2, "mmd": mmd, "wasserstein": w1}


def gemini(base, ovo, P, A=None):
    C, pi = conditionals(P)
    n, K = np.asarray(P).shape
    D = DIST[base]
    if not ovo:
        pdata = np.ones(n) / n
        val = sum(pi[k] * D(C[:, k], pdata, A) for k in range(K))
    else:
        val = 0.0
        for a in range(K):
            for b in range(K):
                if a == b:
                    continue  # D(p,p) = 0 for every distance used here
                val += pi[a] * pi[b] * D(C[:, a], C[:, b], A)
    if base == "chi2":
        val = (val + 1.0) / 2.0
    return float(val)


# registry names documented by the library -> (base distance, ovo)
NAMES = {
    "mmd_ova": ("mmd", False), "mmd_ovo": ("mmd", True),
    "wasserstein_ova": ("wasserstein", False), "wasserstein_ovo": ("wasserstein", True),
    "kl_ova": ("kl", False), "kl_ovo": ("kl", True), "mi": ("kl", False),
    "tv_ova": ("tv", False), "tv_ovo": ("tv", True),
    "hellinger_ova": ("hellinger", False), "hellinger_ovo": ("hellinger", True),
    "chi2_ova": ("chi2", False), "chi2_ovo": ("chi2", True),
}


def natural_scale(base, A):
    """Scale S of an objective: 1 for the f-divergences, sqrt(max|K|) for MMD, max|D| for Wasserstein."""
    if base == "mmd":
        return max(float(np.sqrt(np.max(np.abs(A)))), 1e-300)
    if base == "wasserstein":
        return max(float(np.max(np.abs(A))), 1e-300)
    return 1.0


def score_tol(base, A, ref):
    S = natural_scale(base, A)
    if base == "mmd":
        return 1e-6 * max(S, abs(ref))
    return 1e-8 * max(S, abs(ref))

"""Reference proximal operators written from the problem statements (not from the library code)."""
import numpy as np


def group_lasso_prox(w, alpha):
    """argmin_z 0.5||z-w||^2 + alpha||z||_2 for one group (any shape): radial shrink, exact 0 if ||w||<=alpha."""
    w = np.asarray(w, dtype=float)
    nrm = np.linalg.norm(w.reshape(-1))
    if nrm <= alpha:
        return np.zeros_like(w)
    return w * (1.0 - alpha / nrm)


def group_lasso_objective(z, w, alpha):
    return 0.5 * np.sum((z - w) ** 2) + alpha * np.linalg.norm(z.reshape(-1))


def hier_objective(beta, theta, v, u, alpha):
    return 0.5 * np.sum((beta - v) ** 2) + 0.5 * np.sum((theta - u) ** 2) + alpha * np.linalg.norm(beta.reshape(-1))


def hier_feasible(beta, theta, M, slack=1e-12):
    bound = M * np.linalg.norm(beta.reshape(-1))
    return bool(np.all(np.abs(theta) <= bound + slack * max(1.0, bound)))


def _g(r, nv, absu, alpha, M):
    return 0.5 * (r - nv) ** 2 + alpha * r + 0.5 * np.sum(np.maximum(absu - M * r, 0.0) ** 2)


def hier_prox(v, u, alpha, M):
    """argmin 0.5||b-v||^2+0.5||t-u||^2+alpha||b|| s.t. |t_j|<=M||b||, one group (v, u any shapes).

    One-dimensional reduction on r=||b||: b=r v/||v||, t_j=sign(u_j)min(|u_j|,Mr),
    g(r)=0.5(r-||v||)^2+alpha r+0.5 sum (|u_j|-Mr)_+^2 is convex piecewise quadratic; evaluate the
    stationary point of every piece, every break point and r=0, keep the best.
    Returns (beta, theta, r, g(r))."""
    v = np.asarray(v, dtype=float)
    u = np.asarray(u, dtype=float)
    nv = np.linalg.norm(v.reshape(-1))
    absu = np.abs(u.reshape(-1))
    srt = np.sort(absu)[::-1]
    cands = [0.0]
    csum = 0.0
    for s in range(len(srt) + 1):
        if s > 0:
            csum += srt[s - 1]
        cands.append(max((nv - alpha + M * csum) / (1.0 + s * M * M), 0.0))
    if M > 0:
        cands.extend((srt / M).tolist())
    vals = [_g(r, nv, absu, alpha, M) for r in cands]
    r = cands[int(np.argmin(vals))]
    if nv > 0:
        beta = v * (r / nv)
    else:
        beta = np.zeros_like(v)
        r = 0.0 if nv == 0 and not np.any(absu > 0) else r
    theta = np.sign(u) * np.minimum(np.abs(u), M * r)
    return beta, theta, r, min(vals)

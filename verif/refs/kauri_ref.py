"""Reference model of KAURI: kernel-KMeans objective, brute-force split search, tree routing."""
import itertools

import numpy as np


def J(labels, K):
    """sum_c sigma(C_c x C_c) / |C_c| over the clusters present in `labels`."""
    labels = np.asarray(labels)
    s = 0.0
    for v in np.unique(labels):
        idx = np.where(labels == v)[0]
        s += K[np.ix_(idx, idx)].sum() / len(idx)
    return float(s)


def stock(K, a, b):
    return float(K[np.ix_(a, b)].sum())


class State:
    """An intermediate KAURI state in plain form: leaf_of[i] (leaf of sample i), cl_of_leaf[l] (cluster of leaf l)."""

    def __init__(self, K, X, leaf_of, cl_of_leaf, n_clusters, K_max, min_leaf, explore, features):
        self.K, self.X = K, X
        self.leaf_of = np.asarray(leaf_of)
        self.cl_of_leaf = np.asarray(cl_of_leaf)
        self.nK, self.K_max, self.min_leaf = int(n_clusters), int(K_max), int(min_leaf)
        self.explore = [int(e) for e in explore]
        self.features = [int(f) for f in features]
        self.labels = self.cl_of_leaf[self.leaf_of]
        self.members = {c: np.where(self.labels == c)[0] for c in range(self.nK)}
        self.sigma = {c: stock(K, m, m) for c, m in self.members.items()}

    def real_gain(self, left, right, k, lt, rt):
        """J(after) - J(before) when samples `left` go to cluster lt and `right` to rt (both currently in k)."""
        affected = {k, lt, rt}
        before = sum(self.sigma[c] / len(self.members[c]) for c in affected if c < self.nK and len(self.members[c]))
        moved = np.concatenate([left, right])
        after = 0.0
        for c in affected:
            base = self.members[c] if c < self.nK else np.zeros(0, dtype=int)
            if c == k:
                base = np.setdiff1d(base, moved, assume_unique=True)
            parts = [base]
            if lt == c:
                parts.append(left)
            if rt == c:
                parts.append(right)
            m = np.concatenate(parts).astype(int)
            if len(m):
                after += stock(self.K, m, m) / len(m)
        return after - before

    def candidates(self):
        """Yields (leaf, feature, threshold, left, right, k) for every admissible threshold of every explorable leaf."""
        for leaf in self.explore:
            idx = np.where(self.leaf_of == leaf)[0]
            k = int(self.cl_of_leaf[leaf])
            nl = len(idx)
            for f in self.features:
                order = np.argsort(self.X[idx, f], kind="stable")
                srt = idx[order]
                vals = self.X[srt, f]
                for ls in range(1, nl):
                    if ls < self.min_leaf or nl - ls < self.min_leaf:
                        continue
                    if vals[ls - 1] == vals[ls]:
                        continue
                    yield leaf, f, float(vals[ls - 1]), srt[:ls], srt[ls:], k

    def assignments(self, k, nl):
        """Admissible (left_target, right_target, kind) for a leaf of nl samples currently in cluster k."""
        nK, Kmax = self.nK, self.K_max
        c = len(self.members[k])
        out = []
        if nK < Kmax:
            out += [(nK, k, "star"), (k, nK, "star")]
        if nK < Kmax - 1 and nl != c:
            out.append((nK, nK + 1, "double"))
        others = [q for q in range(nK) if q != k]
        for kp in others:
            out += [(kp, k, "switch"), (k, kp, "switch")]
        if nK >= 3 and nl != c:
            for k1, k2 in itertools.permutations(others, 2):
                out.append((k1, k2, "realloc"))
        return out

    # ---- emulations of the two known findings ------------------------------------------------------------
    def wrong_double_star(self, leaf, f, left, right, k):
        """D12: value the extension computes for the double-star assignment (omega[k, feature_id] in place of the
        stock between the leaf and its cluster; the split term misses a factor 2)."""
        K = self.K
        idx = np.where(self.leaf_of == leaf)[0]
        Ck = self.members[k]
        c, nl, ls = len(Ck), len(idx), len(left)
        g = self.sigma[k]
        lsq = stock(K, idx, idx)
        slsq = stock(K, left, left)
        srsq = stock(K, right, right)
        D = c - nl
        if f >= K.shape[1]:
            return None  # the extension reads out of bounds here: nothing to emulate
        leaf_star = lsq * (1 / nl + 1 / D) + g * (1 / D - 1 / c) - 2 * float(K[Ck, f].sum()) / D
        D2 = nl - ls
        slsr = (lsq - slsq - srsq) / 2
        split_star = slsq * (1 / ls + 1 / D2) + lsq * (1 / D2 - 1 / nl) - (slsq + slsr) / D2
        return leaf_star + split_star

    def typo_realloc(self, left, right, k):
        """D13: the pair of clusters the extension ends up proposing for a reallocation, tracking the runner-up of
        the right-hand switch with `elif left_switch >= second_gain_right`."""
        others = [q for q in range(self.nK) if q != k]
        tgl = sgl = tgr = sgr = -np.inf
        tkl = skl = tkr = skr = -1
        for kp in others:
            l_ = self.real_gain(left, right, k, kp, k)
            r_ = self.real_gain(left, right, k, k, kp)
            if l_ >= tgl:
                tgl, sgl = l_, tgl
                tkl, skl = kp, tkl
            elif l_ >= sgl:
                sgl, skl = l_, kp
            if r_ >= tgr:
                tgr, sgr = r_, tgr
                tkr, skr = kp, tkr
            elif l_ >= sgr:
                sgr, skr = r_, kp
        if tkl != tkr:
            return tkl, tkr
        if tgl + sgr > tgr + sgl:
            return tkl, skr
        return skl, tkr

    def best(self, emu_ds=False, emu_typo=False):
        """Maximum gain over all admissible alternatives (0.0 if none is positive) and the kind that attains it."""
        best, kind = 0.0, None
        for leaf, f, thr, left, right, k in self.candidates():
            nl = len(left) + len(right)
            for lt, rt, kd in self.assignments(k, nl):
                if kd == "double" and emu_ds:
                    g = self.wrong_double_star(leaf, f, left, right, k)
                    if g is None:
                        continue
                elif kd == "realloc" and emu_typo:
                    continue
                else:
                    g = self.real_gain(left, right, k, lt, rt)
                if g > best:
                    best, kind = g, kd
            if emu_typo and self.nK >= 3 and nl != len(self.members[k]):
                kl, kr = self.typo_realloc(left, right, k)
                if kl >= 0 and kr >= 0:
                    g = self.real_gain(left, right, k, kl, kr)
                    if g > best:
                        best, kind = g, "realloc"
        return best, kind


def state_from_arrays(kernel, X, leaves_to_explore, Y, Z, n_clusters, K_max, n_leaves, min_leaf, feature_subset):
    """Plain state from the arguments of find_best_split."""
    Zs = np.asarray(Z)[:n_leaves]
    leaf_of = Zs.argmax(0)
    cl_of_leaf = np.asarray(Y)[:, :n_leaves].argmax(0)
    return State(np.asarray(kernel), np.asarray(X), leaf_of, cl_of_leaf, n_clusters, K_max, min_leaf,
                 list(leaves_to_explore), list(feature_subset))

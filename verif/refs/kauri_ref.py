"""Reference model of KAURI: kernel-KMeans objective, brute-force split search, tree routing."""
import itertools

import numpy as np


def J(labels, K):
    """sum_c sigma(C_c x C_c) / |C_c| over the clusters present in `labels`."""
    labels = np.asarray(labels)
    s = 0.0
    for v in np.unique(labels):
        idx = np.where(labels == v)[0]
        s += K[np.ix_(idx, idx)].sum() / len(idx)
    return float(s)

"""Build step and extension variants.

`python -m verif.build --setup` (MANIFEST.setup_cmd): make sure Hypothesis is importable in /venv (installed from the
offline wheelhouse otherwise) and pre-compile the `cpp` variant of gemclus.tree._utils.

Variants of the KAURI extension that can be obtained from the working tree (DESIGN.md 0.2):
  so  - the module Python imports from the repository (what users run)
  cpp - _utils.cpp compiled here with g++ into /verif/.build/<sha256>/ (cached by content hash)
  pyx - the current _utils.pyx translated to plain Python by verif.decython and executed (source twin)
"""
import hashlib
import importlib.util
import os
import subprocess
import sys
import sysconfig

from .harness import REPO, VERIF_DIR

BUILD_DIR = os.path.join(VERIF_DIR, ".build")
TREE_DIR = os.path.join(REPO, "gemclus", "tree")


def ensure_hypothesis():
    try:
        import hypothesis  # noqa: F401
        return True
    except ImportError:
        pass
    subprocess.call([sys.executable, "-m", "pip", "install", "--no-index", "--find-links", "/opt/veriftools/wheels",
                     "hypothesis"])
    try:
        import hypothesis  # noqa: F401
        return True
    except ImportError:
        return False


def _sha(path):
    return hashlib.sha256(open(path, "rb").read()).hexdigest()[:20]


def _load(name, path):
    spec = importlib.util.spec_from_file_location(name, path)
    mod = importlib.util.module_from_spec(spec)
    spec.loader.exec_module(mod)
    return mod


def build_cpp(verbose=False):
    """Compiles <repo>/gemclus/tree/_utils.cpp; returns the path of the shared object or None."""
    src = os.path.join(TREE_DIR, "_utils.cpp")
    if not os.path.exists(src):
        return None
    import numpy as np
    out_dir = os.path.join(BUILD_DIR, _sha(src))
    ext = sysconfig.get_config_var("EXT_SUFFIX")
    out = os.path.join(out_dir, "_utils" + ext)
    if os.path.exists(out):
        return out
    os.makedirs(out_dir, exist_ok=True)
    cmd = ["g++", "-O1", "-shared", "-fPIC", "-w", "-I" + sysconfig.get_paths()["include"], "-I" + np.get_include(),
           src, "-o", out + ".tmp"]
    p = subprocess.run(cmd, capture_output=True, text=True)
    if p.returncode != 0:
        if verbose:
            print(p.stderr[-2000:])
        return None
    os.replace(out + ".tmp", out)
    return out


def load_variants():
    """Returns ({name: module}, {name: reason}) - modules exposing find_best_split / gemini_objective / Split."""
    mods, skipped = {}, {}
    try:
        sys.path.insert(0, REPO) if sys.path[0] != REPO else None
        from gemclus.tree import _utils as so
        mods["so"] = so
    except Exception as e:  # pragma: no cover
        skipped["so"] = f"import failed: {e!r}"
    try:
        path = build_cpp()
        if path is None:
            skipped["cpp"] = "_utils.cpp absent or g++ failed"
        else:
            mods["cpp"] = _load("_utils", path)
    except Exception as e:
        skipped["cpp"] = f"load failed: {e!r}"
    try:
        from . import decython
        mods["pyx"] = decython.load_twin(os.path.join(TREE_DIR, "_utils.pyx"))
    except Exception as e:
        skipped["pyx"] = f"translation failed: {e!r}"
    return mods, skipped


def main():
    if "--setup" in sys.argv:
        ok = ensure_hypothesis()
        print("hypothesis importable:", ok)
        path = build_cpp(verbose=True)
        print("cpp variant:", path)
        os.makedirs(os.path.join(VERIF_DIR, "evidence"), exist_ok=True)
        os.makedirs(os.path.join(VERIF_DIR, "replays"), exist_ok=True)
        sys.exit(0 if ok else 1)


if __name__ == "__main__":
    main()

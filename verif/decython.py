"""Purpose-built de-cythoniser for gemclus/tree/_utils.pyx (source twin of the KAURI extension).

The image has no Cython, so an edit of the .pyx cannot be compiled. The file uses Cython only for static typing:
`cimport`, `cdef`/`cpdef` declarations, C types in signatures and `cdef class` with readonly attributes. Dropping those
leaves valid Python with the same semantics for the constructs used (true division: the .pyx is compiled with
language_level 3; typed memoryviews index like ndarrays; integer variables never overflow at the sizes tested).
The twin is validated differentially against the compiled module on every run of the C08 check.
"""
import re
import types

TYPE = r'(?:np\.ndarray\[[^\]]*\]|np\.\w+_t(?:\[[:,]*\])?|Py_ssize_t(?:\[[:,]*\])?|bint|int|double|Split)'
TYPEBR = r'(?:np\.ndarray\[[^\]]*\]|np\.\w+_t\[[:,]*\]|Py_ssize_t\[[:,]*\])'


def _strip_args(argstr):
    out, depth, cur = [], 0, ''
    for ch in argstr:
        if ch in '[(':
            depth += 1
        if ch in '])':
            depth -= 1
        if ch == ',' and depth == 0:
            out.append(cur)
            cur = ''
        else:
            cur += ch
    if cur.strip():
        out.append(cur)
    res = []
    for a in out:
        a = a.strip()
        m = re.match(r'^(?:' + TYPE + r'\s+|' + TYPEBR + r'\s*)(\w+\s*(?:=.*)?)$', a)
        res.append(m.group(1) if m else a)
    return ', '.join(res)


def convert(src):
    lines = src.split('\n')
    out = []
    i = 0
    while i < len(lines):
        l = lines[i]
        s = l.strip()
        ind = l[:len(l) - len(l.lstrip())]
        if s.startswith('cimport ') or s == 'np.import_array()':
            i += 1
            continue
        if s.startswith('cdef class '):
            out.append(ind + s[5:])
            i += 1
            continue
        if s.startswith('cdef readonly '):
            out.append(ind + 'pass')
            i += 1
            continue
        m = re.match(r'^(cdef|cpdef|def)\s+(?:' + TYPE + r'\s+)?(\w+)\s*\(', s)
        if m and not re.match(r'^cdef\s+' + TYPE + r'\s+\w+\s*(=|,|$)', s):
            full = s
            j = i
            while not re.search(r'\)\s*(->\s*\w+\s*)?:\s*$', full):
                j += 1
                full += ' ' + lines[j].strip()
            name = m.group(2)
            args = full[full.index('(') + 1:full.rindex(')')]
            out.append(ind + f'def {name}({_strip_args(args)}):')
            i = j + 1
            continue
        m = re.match(r'^cdef\s+' + TYPE + r'\s+(.*)$', s)
        if m:
            rest = m.group(1)
            out.append(ind + (rest if '=' in rest else 'pass'))
            i += 1
            continue
        out.append(l)
        i += 1
    return '\n'.join(out)


def load_twin(path):
    src = open(path).read()
    code = convert(src)
    mod = types.ModuleType("_utils_twin")
    mod.__file__ = path + " (de-cythonised)"
    exec(compile(code, path + "<twin>", "exec"), mod.__dict__)
    for name in ("find_best_split", "gemini_objective", "Split"):
        if not hasattr(mod, name):
            raise RuntimeError(f"translated twin lacks {name}")
    return mod
